import GroupbyVerif.LoopBridge.Basic
import GroupbyVerif.Generated.Loops
import GroupbyVerif.Model.Factorize

/-!
# Bridge: the translated `_build_group_sorted_indexer_numba` (counting sort of row positions by group)

The source computes the start of every group's segment as a prefix sum of the group sizes, then walks the rows once
and writes each row position at the group's running write position.  The theorem: given the true group sizes, the
segment of group `g` holds exactly the ascending positions of the rows carrying code `g` - i.e. the result is
`groupSortedIndexer` (`Model/Factorize.lean`), the list all the `groups` / `apply` / `median` theorems are about.
A row dropped by the mask behaves like a null-key row (`effCodes`).
-/

namespace GV.LoopBridge
open GV GV.Generated.Loops

/-- prefix sums of the group sizes -/
def pre (cnt : Int → Int) (g : Nat) : Int := ((List.range g).map fun (h : Nat) => cnt (h : Int)).sum

theorem pre_succ (cnt : Int → Int) (g : Nat) : pre cnt (g + 1) = pre cnt g + cnt (g : Int) := by
  simp [pre, List.range_succ]

/-- the first loop computes the prefix sums -/
theorem starts_loop (k : Kind) (cnt : Int → Int) (ng : Nat) (gl : Int) :
    ∀ (m : Nat) (g : Nat), g ≤ m →
      (((List.range m).map (fun i : Nat => (i : Int))).foldl
        (build_group_sorted_indexer_loop1_step k gl cnt ((ng : Int) + 1)) ⟨fun _ => 0⟩).group_starts (g : Int)
        = pre cnt g := by
  intro m
  induction m with
  | zero => intro g hg; have : g = 0 := by omega
            subst this; simp [pre]
  | succ m ih =>
    intro g hg
    simp only [List.range_succ, List.map_append, List.foldl_append, List.map_cons, List.map_nil, List.foldl_cons,
      List.foldl_nil, build_group_sorted_indexer_loop1_step, normI_natCast]
    have e : normI ((ng : Int) + 1) ((m : Int) + 1) = ((m + 1 : Nat) : Int) := by
      rw [normI_nonneg _ _ (by omega)]; omega
    rw [e, aset_apply]
    by_cases hgm : g = m + 1
    · subst hgm
      simp only [if_true]
      rw [ih m (by omega), pre_succ]
    · have : ¬ ((g : Int) = ((m + 1 : Nat) : Int)) := by omega
      simp only [this, if_false]
      exact ih g (by omega)

/-- positions below `t` carrying code `g` -/
def posUpTo (ec : List Int) (t : Nat) (g : Int) : List Nat := (List.range t).filter fun i => ec.getD i (-1) = g

theorem posUpTo_succ (ec : List Int) (t : Nat) (g : Int) :
    posUpTo ec (t + 1) g = posUpTo ec t g ++ (if ec.getD t (-1) = g then [t] else []) := by
  simp only [posUpTo, List.range_succ, List.filter_append, List.filter_cons, List.filter_nil]
  by_cases h : ec.getD t (-1) = g <;> simp [h]

theorem posUpTo_length_mono (ec : List Int) (g : Int) (t d : Nat) :
    (posUpTo ec t g).length ≤ (posUpTo ec (t + d) g).length := by
  induction d with
  | zero => simp
  | succ d ih =>
    have : t + (d + 1) = (t + d) + 1 := by omega
    rw [this, posUpTo_succ]
    simp only [List.length_append]
    omega

theorem positionsOf_eq_posUpTo (ec : List Int) (g : Int) : positionsOf ec g = posUpTo ec ec.length g := by
  unfold positionsOf posUpTo
  rw [zipIdx_eq_map_range ec (-1), List.filter_map, List.map_map]
  have : ((fun p : Int × Nat => p.2) ∘ fun i => (ec.getD i (-1), i)) = id := by funext i; rfl
  rw [this, List.map_id]
  rfl

/-- the second loop, one row: closed form of the translated step -/
theorem sort_step_eq (k : Kind) (mask_is_some : Bool) (mk : Int → Bool) (ml il cl kml : Int) (km : Int → Int)
    (idx cp : Int → Int) (i code : Int) :
    build_group_sorted_indexer_loop3_step k kml false km ml mask_is_some mk (!mask_is_some) false il cl ⟨idx, cp, i⟩ code =
      if code ≥ 0 ∧ (mask_is_some = false ∨ mk (normI ml i) = true) then
        ⟨aset idx (normI il (cp (normI cl code))) i, aset cp (normI cl code) (cp (normI cl code) + 1), i + 1⟩
      else ⟨idx, cp, i + 1⟩ := by
  simp only [build_group_sorted_indexer_loop3_step]
  by_cases hc : code ≥ 0 <;> cases mask_is_some <;> cases hm : mk (normI ml i) <;> simp [hc, hm]

structure SortInv (ec : List Int) (cnt : Int → Int) (ng : Nat) (t : Nat) (st : Build_group_sorted_indexer_loop3St) : Prop where
  hi : st.i = (t : Int)
  hcp : ∀ g : Nat, g < ng → st.current_pos (g : Int) = pre cnt g + ((posUpTo ec t (g : Int)).length : Int)
  hidx : ∀ g : Nat, g < ng → ∀ j (hj : j < (posUpTo ec t (g : Int)).length),
    st.indexer (pre cnt g + (j : Int)) = (((posUpTo ec t (g : Int))[j] : Nat) : Int)

theorem pre_mono (cnt : Int → Int) (hc : ∀ g : Nat, 0 ≤ cnt (g : Int)) (a d : Nat) :
    pre cnt a + 0 ≤ pre cnt (a + d) ∧ (0 < d → pre cnt a + cnt (a : Int) ≤ pre cnt (a + d)) := by
  induction d with
  | zero => simp
  | succ d ih =>
    have e : a + (d + 1) = (a + d) + 1 := by omega
    rw [e, pre_succ]
    have := hc (a + d)
    constructor
    · omega
    · intro _
      by_cases hd : 0 < d
      · have := ih.2 hd; omega
      · have : d = 0 := by omega
        subst this; simp

/-- segments of different groups do not overlap -/
theorem seg_disjoint (cnt : Int → Int) (hc : ∀ g : Nat, 0 ≤ cnt (g : Int)) (g h : Nat) (hne : g ≠ h) (a b : Int)
    (ha0 : 0 ≤ a) (ha : a < cnt (g : Int)) (hb0 : 0 ≤ b) (hb : b < cnt (h : Int)) :
    pre cnt g + a ≠ pre cnt h + b := by
  rcases Nat.lt_or_gt_of_ne hne with hl | hl
  · obtain ⟨d, rfl⟩ : ∃ d, h = g + d := ⟨h - g, by omega⟩
    have := (pre_mono cnt hc g d).2 (by omega)
    omega
  · obtain ⟨d, rfl⟩ : ∃ d, g = h + d := ⟨g - h, by omega⟩
    have := (pre_mono cnt hc h d).2 (by omega)
    omega

/-- one row of the second loop -/
theorem sort_step (k : Kind) (ec : List Int) (cnt : Int → Int) (ng : Nat) (masked : Bool) (mk : Int → Bool)
    (ml il kml : Int) (km : Int → Int)
    (hcnt : ∀ g : Nat, g < ng → cnt (g : Int) = ((posUpTo ec ec.length (g : Int)).length : Int))
    (hc0 : ∀ g : Nat, 0 ≤ cnt (g : Int))
    (t : Nat) (ht : t < ec.length) (st : Build_group_sorted_indexer_loop3St) (code : Int)
    (hcode : if code ≥ 0 ∧ (masked = false ∨ mk (t : Int) = true) then code = ec.getD t (-1) else ec.getD t (-1) < 0)
    (hrange : code < (ng : Int)) (hpre0 : 0 ≤ pre cnt 0) (h : SortInv ec cnt ng t st) :
    SortInv ec cnt ng (t + 1)
      (build_group_sorted_indexer_loop3_step k kml false km ml masked mk (!masked) false il (ng : Int) st code) := by
  obtain ⟨idx, cp, i⟩ := st
  obtain ⟨hi, hcp, hidx⟩ := h
  simp only at hi hcp hidx
  subst hi
  rw [sort_step_eq, normI_natCast]
  by_cases hsel : code ≥ 0 ∧ (masked = false ∨ mk (t : Int) = true)
  · -- the row is written at its group's running position
    simp only [hsel, and_self, if_true] at hcode ⊢
    obtain ⟨gk, rfl⟩ : ∃ gk : Nat, code = (gk : Int) := ⟨code.toNat, by omega⟩
    have hgk : gk < ng := by omega
    rw [normI_natCast, hcp gk hgk]
    have hpos0 : 0 ≤ pre cnt gk := by
      have := (pre_mono cnt hc0 0 gk).1; simp at this; omega
    rw [normI_nonneg _ _ (by omega)]
    -- the group's segment still has room: row t itself is one of its rows
    have hroom : ((posUpTo ec t (gk : Int)).length : Int) < cnt (gk : Int) := by
      rw [hcnt gk hgk]
      have h1 := posUpTo_length_mono ec (gk : Int) (t + 1) (ec.length - (t + 1))
      have e : t + 1 + (ec.length - (t + 1)) = ec.length := by omega
      rw [e, posUpTo_succ] at h1
      simp only [← hcode, if_true, List.length_append, List.length_cons, List.length_nil] at h1
      omega
    refine ⟨by simp, fun g hg => ?_, fun g hg j hj => ?_⟩
    · simp only [aset_apply, posUpTo_succ, ← hcode, List.length_append]
      by_cases e : g = gk
      · subst e; simp; omega
      · have : ¬ ((g : Int) = (gk : Int)) := by omega
        have e' : ¬ ((gk : Int) = (g : Int)) := by omega
        simp [this, e', hcp g hg]
    · simp only [posUpTo_succ, ← hcode] at hj ⊢
      simp only [aset_apply]
      by_cases e : g = gk
      · subst e
        simp only [if_true, List.length_append, List.length_cons, List.length_nil] at hj ⊢
        by_cases hjl : j < (posUpTo ec t (g : Int)).length
        · have : ¬ (pre cnt g + (j : Int) = pre cnt g + ((posUpTo ec t (g : Int)).length : Int)) := by omega
          simp only [this, if_false]
          rw [List.getElem_append_left hjl]
          exact hidx g hg j hjl
        · have hje : j = (posUpTo ec t (g : Int)).length := by omega
          subst hje
          simp
      · have e' : ¬ ((gk : Int) = (g : Int)) := by omega
        simp only [e', if_false, List.append_nil] at hj ⊢
        have hjc : (j : Int) < cnt (g : Int) := by
          rw [hcnt g hg]
          have h1 := posUpTo_length_mono ec (g : Int) t (ec.length - t)
          have e2 : t + (ec.length - t) = ec.length := by omega
          rw [e2] at h1
          omega
        have hne := seg_disjoint cnt hc0 g gk e (j : Int) ((posUpTo ec t (gk : Int)).length : Int) (by omega) hjc
          (by omega) hroom
        simp only [hne, if_false]
        exact hidx g hg j hj
  · -- null key or dropped by the mask: only the row counter moves
    simp only [hsel, if_false] at hcode ⊢
    refine ⟨by simp, fun g hg => ?_, fun g hg j hj => ?_⟩
    · have : ¬ (ec.getD t (-1) = (g : Int)) := by omega
      simp only [posUpTo_succ, this, if_false, List.append_nil]
      exact hcp g hg
    · have : ¬ (ec.getD t (-1) = (g : Int)) := by omega
      simp only [posUpTo_succ, this, if_false, List.append_nil] at hj ⊢
      exact hidx g hg j hj

/-- the second loop from row `t` on -/
theorem sort_loop (k : Kind) (ec : List Int) (cnt : Int → Int) (ng : Nat) (masked : Bool) (mk : Int → Bool)
    (ml il kml : Int) (km : Int → Int)
    (hcnt : ∀ g : Nat, g < ng → cnt (g : Int) = ((posUpTo ec ec.length (g : Int)).length : Int))
    (hc0 : ∀ g : Nat, 0 ≤ cnt (g : Int)) :
    ∀ (rest : List Int) (t : Nat) (st : Build_group_sorted_indexer_loop3St), t + rest.length = ec.length →
      (∀ j (hj : j < rest.length),
        (if rest[j] ≥ 0 ∧ (masked = false ∨ mk ((t + j : Nat) : Int) = true) then rest[j] = ec.getD (t + j) (-1)
          else ec.getD (t + j) (-1) < 0) ∧
        rest[j] < (ng : Int)) →
      SortInv ec cnt ng t st →
      SortInv ec cnt ng ec.length
        (rest.foldl (build_group_sorted_indexer_loop3_step k kml false km ml masked mk (!masked) false il (ng : Int)) st) := by
  intro rest
  induction rest with
  | nil => intro t st hl _ h; simp at hl; subst hl; simpa using h
  | cons c cs ih =>
    intro t st hl harr h
    have h0 := harr 0 (by simp)
    simp only [Nat.add_zero, List.getElem_cons_zero] at h0
    have hs := sort_step k ec cnt ng masked mk ml il kml km hcnt hc0 t (by simp at hl; omega) st c h0.1 h0.2
      (by simp [pre]) h
    simp only [List.foldl_cons]
    apply ih (t + 1) _ (by simp at hl; omega) _ hs
    intro j hj
    have := harr (j + 1) (by simp; omega)
    have e : t + (j + 1) = t + 1 + j := by omega
    simpa [e] using this

/-! ### the nested loop over the key chunks is one loop over their concatenation -/

def s3of2 (s : Build_group_sorted_indexer_loop2St) : Build_group_sorted_indexer_loop3St := ⟨s.indexer, s.current_pos, s.i⟩
def s2of3 (s : Build_group_sorted_indexer_loop3St) : Build_group_sorted_indexer_loop2St := ⟨s.i, s.indexer, s.current_pos⟩

theorem sort_chunks_fold (k : Kind) (kml : Int) (kms : Bool) (km : Int → Int) (ml : Int) (ms : Bool) (mk : Int → Bool)
    (um mp : Bool) (il cl : Int) (chunks : List (List Int)) (st : Build_group_sorted_indexer_loop2St) :
    chunks.foldl (build_group_sorted_indexer_loop2_step k kml kms km ml ms mk um mp il cl) st =
      s2of3 (chunks.flatten.foldl (build_group_sorted_indexer_loop3_step k kml kms km ml ms mk um mp il cl) (s3of2 st)) := by
  induction chunks generalizing st with
  | nil => rfl
  | cons c cs ih =>
    simp only [List.foldl_cons, List.flatten_cons, List.foldl_append]
    rw [ih]
    rfl

/-- **`_build_group_sorted_indexer_numba` is the counting sort it is meant to be**: for any chunking of the codes,
any mask, codes below `ngroups` and the true group sizes as `group_counts`, the segment of group `g` (starting at the
prefix sum of the sizes of the groups before it) lists exactly the ascending positions of the rows with code `g` -/
theorem build_group_sorted_indexer_eq (k : Kind) (chunks : List (List Int)) (msk : List Bool) (masked : Bool)
    (cnt : Int → Int) (ng : Nat) (ml kml : Int) (km : Int → Int)
    (hrange : ∀ c ∈ chunks.flatten, c < (ng : Int))
    (hcnt : ∀ g : Nat, g < ng →
      cnt (g : Int) = ((positionsOf (effCodes masked chunks.flatten msk) (g : Int)).length : Int))
    (hc0 : ∀ g : Nat, 0 ≤ cnt (g : Int)) (g : Nat) (hg : g < ng) (j : Nat)
    (hj : j < (positionsOf (effCodes masked chunks.flatten msk) (g : Int)).length) :
    let r := build_group_sorted_indexer k chunks ng cnt false kml km masked ml (arrOf msk true)
    r.2 = false ∧
      r.1 (pre cnt g + (j : Int)) = (((positionsOf (effCodes masked chunks.flatten msk) (g : Int))[j] : Nat) : Int) := by
  intro r
  refine ⟨by simp [r, build_group_sorted_indexer], ?_⟩
  let ec := effCodes masked chunks.flatten msk
  have hecl : ec.length = chunks.flatten.length := by simp [ec]
  have hcnt' : ∀ g : Nat, g < ng → cnt (g : Int) = ((posUpTo ec ec.length (g : Int)).length : Int) := by
    intro g hg; rw [hcnt g hg, positionsOf_eq_posUpTo]
  -- the write positions start at the prefix sums
  have hstart : ∀ g : Nat, g < ng →
      (((List.range ng).map (fun i : Nat => (i : Int))).foldl
        (build_group_sorted_indexer_loop1_step k ng cnt ((ng : Int) + 1)) ⟨fun _ => 0⟩).group_starts (g : Int)
        = pre cnt g := fun g hg => starts_loop k cnt ng ng ng g (by omega)
  have h0 : SortInv ec cnt ng 0
      (s3of2 ⟨0, fun _ => 0,
        (((List.range ng).map (fun i : Nat => (i : Int))).foldl
          (build_group_sorted_indexer_loop1_step k ng cnt ((ng : Int) + 1)) ⟨fun _ => 0⟩).group_starts⟩) := by
    refine ⟨rfl, fun g hg => ?_, fun g hg j hj => ?_⟩
    · simp [s3of2, hstart g hg, posUpTo]
    · simp [posUpTo] at hj
  have hfin := sort_loop k ec cnt ng masked (arrOf msk true) ml
    ((((List.range ng).map (fun i : Nat => (i : Int))).foldl
      (build_group_sorted_indexer_loop1_step k ng cnt ((ng : Int) + 1)) ⟨fun _ => 0⟩).group_starts
      (normI ((ng : Int) + 1) (ng : Int)))
    kml km hcnt' hc0 chunks.flatten 0 _ (by simp [hecl])
    (by
      intro j hj
      refine ⟨?_, hrange _ (List.getElem_mem hj)⟩
      simp only [Nat.zero_add, ec, arrOf_natCast]
      rw [effCodes_getD _ _ _ _ hj]
      have hgd : chunks.flatten.getD j 0 = chunks.flatten[j] := by
        rw [List.getD_eq_getElem?_getD, List.getElem?_eq_getElem hj]; rfl
      rw [hgd]
      generalize chunks.flatten[j] = c
      generalize msk.getD j true = mb
      by_cases hneg : c ≥ 0 <;> cases masked <;> cases mb <;> simp [hneg] <;> (try omega))
    h0
  have hidx := hfin.hidx g hg j (by rw [← positionsOf_eq_posUpTo]; exact hj)
  simp only [r, build_group_sorted_indexer, rangeI_natCast, sort_chunks_fold, s2of3, Bool.not_eq_eq_eq_not,
    Bool.not_true]
  have e : (if (ng : Int) + 1 ≤ 0 then (0 : Int) else (ng : Int) + 1 - 1) = (ng : Int) := by
    split <;> omega
  simp only [e]
  rw [hidx]
  simp only [positionsOf_eq_posUpTo]
  rfl

end GV.LoopBridge
