import GroupbyVerif.Model.Imp
import GroupbyVerif.Model.Kernels

/-!
# Support lemmas for the loop bridges (`Generated/Loops.lean` = hand-written models)

A numpy array argument is the total function `arrOf l d` of a list; iteration over `range(n)` is
`rangeI n`; `fold_rel_map` carries a simulation relation through two folds that walk the same
index list.
-/

namespace GV

/-- the array view of a list (reads outside `[0, length)` give the default; the bridges never rely on them) -/
def arrOf {α : Type} (l : List α) (d : α) : Int → α := fun i => l.getD i.toNat d

@[simp] theorem arrOf_ofNat {α : Type} (l : List α) (d : α) (i : Nat) : arrOf l d (Int.ofNat i) = l.getD i d := by
  simp [arrOf]

@[simp] theorem arrOf_natCast {α : Type} (l : List α) (d : α) (i : Nat) : arrOf l d (i : Int) = l.getD i d := by
  simp [arrOf]

theorem normI_nonneg (n k : Int) (h : 0 ≤ k) : normI n k = k := by
  unfold normI; split <;> omega

theorem normI_neg (n k : Int) (h : k < 0) : normI n k = k + n := by
  unfold normI; split <;> omega

@[simp] theorem normI_natCast (n : Int) (i : Nat) : normI n (i : Int) = (i : Int) := normI_nonneg _ _ (by omega)

@[simp] theorem normI_ofNat (n : Int) (i : Nat) : normI n (Int.ofNat i) = Int.ofNat i :=
  normI_nonneg _ _ (by simp)

@[simp] theorem aset_same {α : Type} (a : Int → α) (i : Int) (x : α) : aset a i x i = x := by simp [aset]

theorem aset_other {α : Type} (a : Int → α) (i j : Int) (x : α) (h : j ≠ i) : aset a i x j = a j := by
  simp [aset, h]

theorem aset_apply {α : Type} (a : Int → α) (i j : Int) (x : α) : aset a i x j = if j = i then x else a j := rfl

theorem rangeI_natCast (n : Nat) : rangeI (n : Int) = (List.range n).map (fun i : Nat => (i : Int)) := by
  simp [rangeI]

/-- simulation through two folds over images of the same index list -/
theorem fold_rel_map {σ τ ι α β : Type} (R : σ → τ → Prop) (P : ι → Prop) (a : ι → α) (b : ι → β)
    (f : σ → α → σ) (g : τ → β → τ)
    (hstep : ∀ s t i, P i → R s t → R (f s (a i)) (g t (b i))) :
    ∀ (is : List ι) (s0 : σ) (t0 : τ), (∀ i ∈ is, P i) → R s0 t0 →
      R ((is.map a).foldl f s0) ((is.map b).foldl g t0) := by
  intro is
  induction is with
  | nil => intro s0 t0 _ h0; simpa using h0
  | cons i is ih =>
    intro s0 t0 hP h0
    simp only [List.map_cons, List.foldl_cons]
    exact ih _ _ (fun j hj => hP j (List.mem_cons_of_mem _ hj)) (hstep _ _ _ (hP i List.mem_cons_self) h0)

/-- the same with a step counter in the relation (for invariants such as "a counter is at most the number of
iterations so far") -/
theorem fold_rel_map_cnt {σ τ ι α β : Type} (R : Nat → σ → τ → Prop) (P : ι → Prop) (a : ι → α) (b : ι → β)
    (f : σ → α → σ) (g : τ → β → τ)
    (hstep : ∀ c s t i, P i → R c s t → R (c + 1) (f s (a i)) (g t (b i))) :
    ∀ (is : List ι) (c : Nat) (s0 : σ) (t0 : τ), (∀ i ∈ is, P i) → R c s0 t0 →
      R (c + is.length) ((is.map a).foldl f s0) ((is.map b).foldl g t0) := by
  intro is
  induction is with
  | nil => intro c s0 t0 _ h0; simpa using h0
  | cons i is ih =>
    intro c s0 t0 hP h0
    simp only [List.map_cons, List.foldl_cons, List.length_cons]
    have := ih (c + 1) _ _ (fun j hj => hP j (List.mem_cons_of_mem _ hj)) (hstep _ _ _ _ (hP i List.mem_cons_self) h0)
    have e : c + (is.length + 1) = c + 1 + is.length := by omega
    rw [e]; exact this

/-- the codes a row-selection kernel effectively sees: a row that the mask drops behaves like a null-key row -/
def effCodes (masked : Bool) (codes : List Int) (msk : List Bool) : List Int :=
  (List.range codes.length).map fun i => if masked && !(msk.getD i true) then -1 else codes.getD i 0

/-- a list with its positions is the image of `range length` -/
theorem zipIdx_eq_map_range {α : Type} (l : List α) (d : α) :
    l.zipIdx = (List.range l.length).map (fun i => (l.getD i d, i)) := by
  apply List.ext_getElem
  · simp
  · intro i h1 h2
    simp at h1 h2 ⊢
    simp [h1]

theorem list_eq_map_range {α : Type} (l : List α) (d : α) :
    l = (List.range l.length).map (fun i => l.getD i d) := by
  apply List.ext_getElem
  · simp
  · intro i h1 h2
    simp at h1 h2 ⊢
    simp [h1]

theorem zip_getD {α β : Type} (l : List α) (m : List β) (da : α) (db : β) (i : Nat) (h1 : i < l.length)
    (h2 : i < m.length) : (l.zip m).getD i (da, db) = (l.getD i da, m.getD i db) := by
  have h3 : i < (l.zip m).length := by simp; omega
  rw [List.getD_eq_getElem?_getD, List.getElem?_eq_getElem h3]
  simp [h1, h2]

theorem effCodes_unmasked (codes : List Int) (msk : List Bool) : effCodes false codes msk = codes := by
  unfold effCodes
  simpa using (list_eq_map_range codes 0).symm

@[simp] theorem effCodes_length (masked : Bool) (codes : List Int) (msk : List Bool) :
    (effCodes masked codes msk).length = codes.length := by simp [effCodes]

theorem effCodes_getD (masked : Bool) (codes : List Int) (msk : List Bool) (j : Nat) (hj : j < codes.length) (d : Int) :
    (effCodes masked codes msk).getD j d = if masked && !(msk.getD j true) then -1 else codes.getD j 0 := by
  simp [effCodes, List.getD_eq_getElem?_getD, hj]

theorem effCodes_zipIdx (masked : Bool) (codes : List Int) (msk : List Bool) :
    (effCodes masked codes msk).zipIdx =
      (List.range codes.length).map fun i => ((if masked && !(msk.getD i true) then -1 else codes.getD i 0), i) := by
  rw [zipIdx_eq_map_range _ 0, effCodes_length]
  apply List.map_congr_left
  intro i hi
  have hi' : i < codes.length := by simpa using hi
  simp [effCodes, List.getD_eq_getElem?_getD, hi']

/-- one position of `takePositions` -/
def elemAt {α : Type} (xs : List α) (p : Int) : Option α :=
  let q := normIdx xs.length p
  if q < 0 then none else xs[q.toNat]?

theorem takePos_nil {α : Type} (xs : List α) : takePositions xs [] = some [] := by
  simp [takePositions]

theorem takePos_cons_iff {α : Type} (xs : List α) (p : Int) (ps : List Int) (sel : List α) :
    takePositions xs (p :: ps) = some sel ↔
      ∃ row rest, elemAt xs p = some row ∧ takePositions xs ps = some rest ∧ sel = row :: rest := by
  unfold takePositions elemAt
  rw [List.mapM_cons]
  cases h1 : (let q := normIdx xs.length p; if q < 0 then none else xs[q.toNat]?) with
  | none => simp
  | some row =>
    cases h2 : List.mapM (fun p => let q := normIdx xs.length p; if q < 0 then none else xs[q.toNat]?) ps with
    | none => simp
    | some rest =>
      simp
      constructor
      · intro h; exact h.symm
      · intro h; exact h.symm

/-- a position accepted by `takePositions` lies in `[-n, n)` and selects the element at its normalised index -/
theorem elemAt_some {α : Type} (xs : List α) (p : Int) (row : α) (h : elemAt xs p = some row) :
    0 ≤ normIdx xs.length p ∧ (normIdx xs.length p).toNat < xs.length ∧
      xs[(normIdx xs.length p).toNat]? = some row := by
  unfold elemAt at h
  by_cases hneg : normIdx xs.length p < 0
  · simp [hneg] at h
  · simp only [hneg, if_false] at h
    refine ⟨by omega, ?_, h⟩
    rcases Nat.lt_or_ge (normIdx xs.length p).toNat xs.length with hlt | hge
    · exact hlt
    · rw [List.getElem?_eq_none hge] at h
      cases h

end GV
