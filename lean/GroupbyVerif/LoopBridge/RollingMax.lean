import GroupbyVerif.LoopBridge.Rolling

/-!
# Bridge: the translated `min_or_max_and_position` and `_rolling_max_or_min_1d` are `minOrMax` / the `mstep` ring model

`min_or_max_and_position` has a `while` loop (skip the leading nulls, stop at the last cell): it is translated with the
declared iteration bound `len(arr)`, and the flag "the bound was too small" is part of the error flag, proved false here.
-/

namespace GV.LoopBridge
open GV GV.Generated.Loops

/-- number of leading nulls -/
def leadNulls (k : Kind) : List Val → Nat
  | [] => 0
  | v :: vs => if isNull k v then leadNulls k vs + 1 else 0

theorem leadNulls_le (k : Kind) (l : List Val) : leadNulls k l ≤ l.length := by
  induction l with
  | nil => simp [leadNulls]
  | cons v vs ih => simp only [leadNulls]; split <;> simp <;> omega

theorem leadNulls_null (k : Kind) (l : List Val) (j : Nat) (hj : j < leadNulls k l) (d : Val) :
    isNull k (l.getD j d) = true := by
  induction l generalizing j with
  | nil => simp [leadNulls] at hj
  | cons v vs ih =>
    simp only [leadNulls] at hj
    by_cases hv : isNull k v = true
    · simp only [hv, if_true] at hj
      cases j with
      | zero => simpa using hv
      | succ j => simpa using ih j (by omega)
    · simp [hv] at hj

theorem leadNulls_stop (k : Kind) (l : List Val) (h : leadNulls k l < l.length) (d : Val) :
    isNull k (l.getD (leadNulls k l) d) = false := by
  induction l with
  | nil => simp at h
  | cons v vs ih =>
    simp only [leadNulls] at h ⊢
    by_cases hv : isNull k v = true
    · simp only [hv, if_true] at h ⊢
      simpa using ih (by simpa using h)
    · simp only [hv, Bool.false_eq_true, if_false]
      simpa using hv

theorem dropWhile_eq_drop (k : Kind) (l : List Val) :
    l.dropWhile (fun v => isNull k v) = l.drop (leadNulls k l) := by
  induction l with
  | nil => rfl
  | cons v vs ih =>
    simp only [List.dropWhile_cons, leadNulls]
    by_cases hv : isNull k v = true
    · simp [hv, ih]
    · simp [hv]

/-- the `while` loop: after `t` iterations the cursor is `min t (min (leading nulls) (n - 1))` -/
theorem skip_loop (k : Kind) (l : List Val) (hn : 0 < l.length) (d : Val) (arr : Int → Val)
    (harr : ∀ j : Nat, j < l.length → arr (j : Int) = l.getD j d) :
    ∀ t : Nat,
      (((List.range t).map (fun i : Nat => (i : Int))).foldl
        (min_or_max_and_position_loop1_step k l.length arr) ⟨0⟩).i
        = ((min t (min (leadNulls k l) (l.length - 1)) : Nat) : Int) := by
  intro t
  induction t with
  | zero => simp
  | succ t ih =>
    simp only [List.range_succ, List.map_append, List.foldl_append, List.map_cons, List.map_nil, List.foldl_cons,
      List.foldl_nil, min_or_max_and_position_loop1_step]
    rw [ih]
    simp only [normI_natCast]
    rw [harr _ (by omega)]
    by_cases hlt : t < min (leadNulls k l) (l.length - 1)
    · have h1 : min t (min (leadNulls k l) (l.length - 1)) = t := by omega
      have h2 : min (t + 1) (min (leadNulls k l) (l.length - 1)) = t + 1 := by omega
      have hnull := leadNulls_null k l t (by omega) d
      simp only [List.getD_eq_getElem?_getD] at hnull
      have hlast : ((t : Nat) : Int) < (l.length : Int) - 1 := by omega
      simp [h1, h2, hnull, hlast]
    · have h1 : min t (min (leadNulls k l) (l.length - 1)) = min (leadNulls k l) (l.length - 1) := by omega
      have h2 : min (t + 1) (min (leadNulls k l) (l.length - 1)) = min (leadNulls k l) (l.length - 1) := by omega
      rw [h1, h2]
      by_cases hf : leadNulls k l < l.length - 1
      · have h3 : min (leadNulls k l) (l.length - 1) = leadNulls k l := by omega
        have hstop := leadNulls_stop k l (by omega) d
        simp only [List.getD_eq_getElem?_getD] at hstop
        simp [h3, hstop]
      · have h3 : min (leadNulls k l) (l.length - 1) = l.length - 1 := by omega
        have : ¬ (((l.length - 1 : Nat) : Int) < (l.length : Int) - 1) := by omega
        simp [h3, this]

/-- a fold over the index range `[a, n)` that reads `arr[q]` simulates the fold over `l.drop a` -/
theorem fold_rangeI2_drop_rel {σ τ : Type} (R : σ → τ → Prop) (l : List Val) (d : Val) (a : Nat) (ha : a ≤ l.length)
    (f : σ → Int → σ) (g : τ → Val → τ)
    (h : ∀ s t (q : Nat), q < l.length → R s t → R (f s (q : Int)) (g t (l.getD q d))) (s0 : σ) (t0 : τ) (h0 : R s0 t0) :
    R ((rangeI2 (a : Int) (l.length : Int)).foldl f s0) ((l.drop a).foldl g t0) := by
  have hd : l.drop a = (List.range (l.length - a)).map (fun j => l.getD (a + j) d) := by
    have := list_eq_map_range (l.drop a) d
    rw [List.length_drop] at this
    rw [this]
    apply List.map_congr_left
    intro j hj
    simp [List.getD_eq_getElem?_getD, List.getElem?_drop]
  have hr : rangeI2 (a : Int) (l.length : Int) = (List.range (l.length - a)).map (fun j : Nat => ((a + j : Nat) : Int)) := by
    unfold rangeI2
    have : ((l.length : Int) - (a : Int)).toNat = l.length - a := by omega
    rw [this]
    apply List.map_congr_left
    intro j _
    simp
  rw [hd, hr]
  exact fold_rel_map R (fun j : Nat => j < l.length - a) (fun j : Nat => ((a + j : Nat) : Int))
    (fun j => l.getD (a + j) d) f g
    (fun s t j hj hst => h s t (a + j) (by omega) hst)
    _ _ _ (by intro j hj; simpa using hj) h0

theorem mm_step_eq (k : Kind) (l : List Val) (d : Val) (arr : Int → Val)
    (harr : ∀ j : Nat, j < l.length → arr (j : Int) = l.getD j d) (wantMax : Bool) (i0 : Int)
    (s : Min_or_max_and_position_loop2St) (q : Nat) (hq : q < l.length) :
    (min_or_max_and_position_loop2_step k l.length arr wantMax i0 s (q : Int)).best =
      (if isNull k (l.getD q d) then s.best
       else if (if wantMax then (l.getD q d).ge s.best else (l.getD q d).le s.best) then l.getD q d else s.best) := by
  simp only [min_or_max_and_position_loop2_step, normI_natCast, harr q hq]
  generalize l.getD q d = v
  by_cases hn : isNull k v = true
  · simp [hn]
  · cases wantMax <;> by_cases hc : v.ge s.best = true <;> by_cases hc' : v.le s.best = true <;>
      simp [hn, hc, hc']

/-- **`min_or_max_and_position` returns `minOrMax`** (the extremum of the non-null cells scanning with `>=` / `<=`, the
last cell if all are null), and its `while` loop stays within the declared bound -/
theorem min_or_max_and_position_eq (k : Kind) (l : List Val) (hn : 0 < l.length) (d : Val) (arr : Int → Val)
    (harr : ∀ j : Nat, j < l.length → arr (j : Int) = l.getD j d) (wantMax : Bool) :
    let r := min_or_max_and_position k l.length arr wantMax
    r.2 = false ∧ r.1.1 = minOrMax k wantMax l := by
  intro r
  have hskip := skip_loop k l hn d arr harr l.length
  have hle := leadNulls_le k l
  have hi5 : min l.length (min (leadNulls k l) (l.length - 1)) = min (leadNulls k l) (l.length - 1) := by omega
  rw [hi5] at hskip
  have hfold : ∀ (a : Nat) (ha : a ≤ l.length) (s0 : Min_or_max_and_position_loop2St) (i0 : Int),
      ((rangeI2 (a : Int) (l.length : Int)).foldl (min_or_max_and_position_loop2_step k l.length arr wantMax i0) s0).best
        = (l.drop a).foldl (fun best v => if isNull k v then best
            else if (if wantMax then v.ge best else v.le best) then v else best) s0.best := by
    intro a ha s0 i0
    exact fold_rangeI2_drop_rel (fun (s : Min_or_max_and_position_loop2St) (b : Val) => s.best = b) l d a ha _ _
      (fun s t q hq hst => by rw [mm_step_eq k l d arr harr wantMax i0 s q hq, hst]) s0 s0.best rfl
  simp only [r, min_or_max_and_position, rangeI_natCast, hskip]
  by_cases hall : leadNulls k l = l.length
  · -- every cell is null: the last cell is returned
    have h5 : min (leadNulls k l) (l.length - 1) = l.length - 1 := by omega
    have he : (((l.length - 1 : Nat) : Int) + 1) = ((l.length : Nat) : Int) := by omega
    simp only [h5, he]
    have hnl : ¬ (((l.length - 1 : Nat) : Int) < (l.length : Int) - 1) := by omega
    refine ⟨by simp [hnl], ?_⟩
    have := hfold l.length (Nat.le_refl _) ⟨arr (normI l.length ((l.length - 1 : Nat) : Int)), ((l.length - 1 : Nat) : Int)⟩
      ((l.length - 1 : Nat) : Int)
    rw [this]
    simp only [List.drop_length, List.foldl_nil, normI_natCast, harr _ (show l.length - 1 < l.length by omega), minOrMax,
      dropWhile_eq_drop, hall]
    rw [List.getD_eq_getElem?_getD, List.getElem?_eq_getElem (by omega)]
    simp [List.getLastD_eq_getLast?, List.getLast?_eq_getElem?]
    rw [List.getElem?_eq_getElem (by omega)]; rfl
  · have hf : leadNulls k l < l.length := by omega
    have h5 : min (leadNulls k l) (l.length - 1) = leadNulls k l := by omega
    have he : ((leadNulls k l : Nat) : Int) + 1 = ((leadNulls k l + 1 : Nat) : Int) := by omega
    have hstop := leadNulls_stop k l hf d
    simp only [h5, he]
    refine ⟨by simp only [normI_natCast, harr _ hf, hstop]; simp, ?_⟩
    have := hfold (leadNulls k l + 1) (by omega) ⟨arr (normI l.length ((leadNulls k l : Nat) : Int)), ((leadNulls k l : Nat) : Int)⟩
      ((leadNulls k l : Nat) : Int)
    rw [this]
    simp only [normI_natCast, harr _ hf, minOrMax, dropWhile_eq_drop]
    rw [List.drop_eq_getElem_cons hf]
    simp [List.getD_eq_getElem?_getD, hf]

theorem foldl_pick_mem (k : Kind) (b : Bool) (vs : List Val) (x : Val) :
    vs.foldl (fun best v => if isNull k v then best else if (if b then v.ge best else v.le best) then v else best) x
      ∈ x :: vs := by
  induction vs generalizing x with
  | nil => simp
  | cons v vs ih =>
    simp only [List.foldl_cons]
    have := ih (if isNull k v then x else if (if b then v.ge x else v.le x) then v else x)
    simp only [List.mem_cons] at this ⊢
    rcases this with h | h
    · rw [h]
      by_cases h1 : isNull k v = true
      · simp [h1]
      · by_cases h2 : (if b then v.ge x else v.le x) = true
        · simp [h1, h2]
        · simp [h1, h2]
    · exact Or.inr (Or.inr h)

/-- the scan returns one of the cells -/
theorem minOrMax_mem (k : Kind) (b : Bool) (l : List Val) (hne : l ≠ []) : minOrMax k b l ∈ l := by
  unfold minOrMax
  rw [dropWhile_eq_drop]
  cases hd : l.drop (leadNulls k l) with
  | nil =>
    simp only
    rw [List.getLastD_eq_getLast?]
    cases hl : l.getLast? with
    | none => simp [List.getLast?_eq_none_iff] at hl; exact absurd hl hne
    | some x => simpa using List.mem_of_getLast? hl
  | cons x vs =>
    simp only
    have hsub : ∀ y ∈ x :: vs, y ∈ l := by
      intro y hy
      rw [← hd] at hy
      exact List.mem_of_mem_drop hy
    exact hsub _ (foldl_pick_mem k b vs x)

/-! ### the rolling extremum kernel -/

theorem max_cell (so : Int → Val) (t : Int) (nullv X : Val) (NN : Int) (minp : Nat) (hu : so t = nullv) :
    (X = .nan → nullv = .nan) →
    (if decide (NN ≥ (minp : Int)) = true then aset so t X else so) t =
      cellVal (fun a _ => a) nullv
        (if NN ≥ (minp : Int) then (match X with | .num n => RCell.num n | .nan => RCell.null) else RCell.null) := by
  intro hn
  by_cases hge : NN ≥ (minp : Int)
  · cases X with
    | num n => simp [hge, cellVal, aset_apply]
    | nan => simp [hge, cellVal, aset_apply, hn rfl]
  · simp [hge, cellVal, hu]

structure MaxInv (nullv : Val) (w : Nat) (t : Nat) (st : Rolling_max_or_min_loop2St) (m : Int → RS) : Prop where
  hi : st.i = (t : Int) - 1
  hun : ∀ j : Int, (t : Int) ≤ j → st.out' j = nullv
  herr : st.err = false
  hnanb : ∀ g c : Int, st.group_buffers g c = .nan → nullv = .nan
  hnanc : ∀ g : Int, 0 ≤ g → st.current_best g = .nan → nullv = .nan
  hring : RingRel w st.group_buffers st.group_buffer_pos st.group_n_seen m
  hbest : ∀ g : Int, 0 ≤ g → st.current_best g = (m g).best ∧ st.group_non_null g = (m g).nn

theorem max_step (k : Kind) (wantMax : Bool) (nullv : Val) (w : Nat) (hw : 0 < w)
    (minp : Nat) (gk : Int → Int) (masked : Bool) (mk : Int → Bool) (ng ml gkl ol : Int) (t : Nat)
    (st : Rolling_max_or_min_loop2St) (m : Int → RS) (r : CRow)
    (hcode : gk (t : Int) = r.code) (hsel : (masked && !mk (t : Int)) = !r.sel)
    (hv : r.val = .nan → nullv = .nan) (h : MaxInv nullv w t st m) :
    let st' := rolling_max_or_min_loop2_step k gkl gk w minp ml masked mk wantMax masked (!wantMax) ng ng w ng ng ng ng ol
      st r.val
    let m' := if r.code < 0 || !r.sel then m else upd m r.code (mstep k w wantMax (m r.code) r.val)
    MaxInv nullv w (t + 1) st' m' ∧ (∀ j : Int, j < t → st'.out' j = st.out' j) ∧
      st'.out' (t : Int) = (if r.code < 0 || !r.sel then nullv
        else cellVal (fun a _ => a) nullv
          (rollOut k (if wantMax then RollOp.max else RollOp.min) w minp (m r.code) (mstep k w wantMax (m r.code) r.val) r.val)) := by
  obtain ⟨si, sn, sb, sbest, spb, sp, sc, so, se⟩ := st
  obtain ⟨hi, hun, herr, hnanb, hnanc, hring, hbest⟩ := h
  simp only at hi hun herr hnanb hnanc hring hbest
  subst hi
  subst herr
  intro st' m'
  have e1 : (t : Int) - 1 + 1 = (t : Int) := by omega
  simp only [st', m', rolling_max_or_min_loop2_step, e1, normI_natCast, hcode, hsel]
  by_cases hk : r.code < 0
  · simp only [hk, decide_true, if_true, Bool.true_or]
    exact ⟨⟨by simp, fun j hj => hun j (by omega), rfl, hnanb, hnanc, hring, hbest⟩,
      by first | trivial | (intro _ _; first | trivial | rfl), hun _ (by omega)⟩
  · have hk0 : 0 ≤ r.code := by omega
    simp only [hk, decide_false, Bool.false_eq_true, if_false, Bool.false_or, normI_nonneg _ _ hk0]
    by_cases hs : r.sel = true
    · simp only [hs, Bool.not_true, Bool.false_eq_true, if_false]
      obtain ⟨kb, kp, kpw, kn⟩ := hring _ hk0
      obtain ⟨kbest, knn⟩ := hbest _ hk0
      have hpos0 : (0 : Int) ≤ sp r.code := by omega
      rw [normI_nonneg _ _ hpos0]
      have hold : (m r.code).buf.getD (m r.code).pos (nullValue k) = sb r.code (sp r.code) := by
        rw [kb, rowV_getD _ _ _ _ kpw, kp]
      have hfull : (decide (sc r.code ≥ (w : Int))) = decide ((m r.code).nSeen ≥ w) := by
        rw [← kn]; simp
      -- the rescan of the group's buffer row by the translated helper is the model's `minOrMax`
      have hrow : rowV (aset2 sb r.code (sp r.code) r.val) r.code w = (m r.code).buf.set (m r.code).pos r.val := by
        rw [kb, ← kp, rowV_aset2_same _ _ _ _ kpw]
      have hmm := min_or_max_and_position_eq k (rowV (aset2 sb r.code (sp r.code) r.val) r.code w)
        (by simp; exact hw) .nan (fun c => aset2 sb r.code (sp r.code) r.val r.code c)
        (by intro j hj; rw [rowV_getD _ _ _ _ (by simpa using hj)]) wantMax
      simp only [rowV_length] at hmm
      rw [hrow] at hmm
      obtain ⟨hmm2, hmm1⟩ := hmm
      generalize min_or_max_and_position k (w : Int) (fun c => aset2 sb r.code (sp r.code) r.val r.code c) wantMax = mm at *
      simp only [hfull, kbest, knn]
      generalize hold' : sb r.code (sp r.code) = old at *
      generalize hfl : decide ((m r.code).nSeen ≥ w) = full at *
      have hnanb' : ∀ g c : Int, aset2 sb r.code (sp r.code) r.val g c = .nan → nullv = .nan := by
        intro g c hc
        simp only [aset2] at hc
        split at hc
        · exact hv hc
        · exact hnanb g c hc
      have hring' : RingRel w (aset2 sb r.code (sp r.code) r.val)
          (aset sp r.code (Int.fmod (sp r.code + 1) (w : Int)))
          (if (!full) = true then aset sc r.code (sc r.code + 1) else sc)
          (upd m r.code (mstep k w wantMax (m r.code) r.val)) := by
        intro g hg
        obtain ⟨gb, gp, gpw, gn⟩ := hring g hg
        by_cases e : g = r.code
        · subst e
          simp only [upd, if_true, mstep, aset_apply]
          refine ⟨?_, ?_, Nat.mod_lt _ hw, ?_⟩
          · rw [gb, ← gp, rowV_aset2_same _ _ _ _ gpw]
          · rw [← gp, fmod_succ_cast _ _ hw]
          · rw [hfl]
            cases full
            · simp only [Bool.not_false, if_true, aset_apply, Bool.false_eq_true, if_false]; omega
            · simp [gn]
        · simp only [upd, e, if_false, aset_apply]
          refine ⟨by rw [rowV_aset2_other _ _ _ _ _ _ e]; exact gb, gp, gpw, ?_⟩
          cases full <;> simp [aset_apply, e, gn]
      -- the model's new non-null count and extremum of the row's group
      have hmnn : (mstep k w wantMax (m r.code) r.val).nn =
          (if isNull k r.val then (if full && !isNull k old then (m r.code).nn - 1 else (m r.code).nn)
           else (if full && !isNull k old then (m r.code).nn - 1 else (m r.code).nn) + 1) := by
        simp only [mstep, hold, hfl]
      have hmbest : (mstep k w wantMax (m r.code) r.val).best =
          (if full && !(!isNull k r.val && (decide ((if full && !isNull k old then (m r.code).nn - 1 else (m r.code).nn) = 0) ||
              (if wantMax then r.val.ge (m r.code).best else r.val.le (m r.code).best))) then mm.1.1
           else if (!isNull k r.val && (decide ((if full && !isNull k old then (m r.code).nn - 1 else (m r.code).nn) = 0) ||
              (if wantMax then r.val.ge (m r.code).best else r.val.le (m r.code).best))) then r.val else (m r.code).best) := by
        simp only [mstep, hold, hfl, hmm1]
      -- a NaN coming out of the rescan is a NaN cell of the buffer
      have hmmnan : mm.1.1 = .nan → nullv = .nan := by
        intro hnan
        have hmem := minOrMax_mem k wantMax ((m r.code).buf.set (m r.code).pos r.val)
          (by intro h0; have := congrArg List.length h0; simp [kb] at this; omega)
        rw [← hmm1, hnan, ← hrow] at hmem
        simp only [rowV, List.mem_map, List.mem_range] at hmem
        obtain ⟨j, _, hj⟩ := hmem
        exact hnanb' _ _ hj
      have hcmp : ∀ x y : Bool, ((wantMax && x) || ((!wantMax) && y)) = (if wantMax then x else y) := by
        cases wantMax <;> simp
      simp only [Bool.or_assoc, hcmp]
      have hbnan : (m r.code).best = .nan → nullv = .nan := by
        intro hb; exact hnanc _ hk0 (by rw [kbest]; exact hb)
      generalize hc : (if wantMax then r.val.ge (m r.code).best else r.val.le (m r.code).best) = cmp at *
      cases full <;> cases hon : isNull k old <;> cases hvn : isNull k r.val <;>
        simp only [hon, hvn, Bool.not_true, Bool.not_false, Bool.false_eq_true, if_false, if_true, Bool.and_true,
          Bool.and_false, Bool.true_and, Bool.false_and, aset_apply, knn, kbest] at hring' hmnn hmbest ⊢
      all_goals
        (rcases (Bool.eq_false_or_eq_true (decide ((m r.code).nn = 0))) with hzd | hzd <;>
         rcases (Bool.eq_false_or_eq_true (decide ((m r.code).nn - 1 = 0))) with hzd1 | hzd1 <;> cases cmp <;>
         try simp only [hzd, hzd1, Bool.true_or, Bool.false_or, Bool.or_true, Bool.or_false, if_true,
            if_false, Bool.false_eq_true, Bool.not_true, Bool.not_false, Bool.and_true, Bool.and_false, aset_apply, hmm2]
            at hmbest ⊢)
      all_goals
        refine (fun hinv' => ⟨hinv', ?_, ?_⟩) ⟨by simp, ?_, by first | rfl | simp [hmm2], hnanb', ?_, hring', ?_⟩
      -- cells before / after the row are untouched
      all_goals try (
        intro j hj
        have hjt : ¬ j = (t : Int) := by omega
        try dsimp only
        have hcell : ∀ (c : Bool) (x : Val), (if c = true then aset so (t : Int) x else so) j = so j := by
          intro c x; cases c <;> simp [aset_apply, hjt]
        first | exact hcell _ _ | (rw [hcell]; exact hun j (by omega)))
      -- a NaN extremum only with a NaN null marker
      all_goals try (
        intro g hg hb
        dsimp only at hb
        by_cases e : g = r.code
        · subst e
          try simp only [aset_apply, if_true] at hb
          first | exact hv hb | exact hbnan hb | exact hmmnan hb | exact hnanc _ hg hb
        · try simp only [aset_apply, e, if_false] at hb
          exact hnanc g hg hb)
      -- extremum and non-null count per group
      all_goals try (
        intro g hg
        dsimp only
        obtain ⟨gb, gn⟩ := hbest g hg
        by_cases e : g = r.code
        · subst e
          simp only [upd, if_true, hmnn, hmbest, aset_apply, gb, gn]
          first | exact ⟨rfl, rfl⟩ | (constructor <;> first | rfl | omega | simp)
        · simp only [upd, e, if_false, aset_apply]
          exact ⟨gb, gn⟩)
      -- the output cell of the row
      all_goals try (
        have h := hinv'.hbest r.code hk0
        have hnc := hinv'.hnanc r.code hk0
        (try dsimp only at h hnc)
        (try simp only [upd, if_true, aset_apply] at h hnc)
        (try simp only [kbest, knn] at h hnc)
        (try simp only [kbest, knn])
        obtain ⟨h1, h2⟩ := h
        have hu := hun (t : Int) (by omega)
        cases wantMax <;> simp only [rollOut, ← h1, ← h2, if_true, if_false, Bool.false_eq_true] <;>
          exact max_cell so t nullv _ _ minp hu hnc)
    · have hs' : r.sel = false := by cases h' : r.sel <;> simp_all
      simp only [hs', Bool.not_false, if_true]
      exact ⟨⟨by simp, fun j hj => hun j (by omega), rfl, hnanb, hnanc, hring, hbest⟩,
        by first | trivial | (intro _ _; first | trivial | rfl), hun _ (by omega)⟩

theorem max_loop (k : Kind) (wantMax : Bool) (nullv : Val) (w : Nat) (hw : 0 < w)
    (minp : Nat) (gk : Int → Int) (masked : Bool) (mk : Int → Bool) (ng ml gkl ol : Int) :
    ∀ (rest : List CRow) (t : Nat) (st : Rolling_max_or_min_loop2St) (m : Int → RS),
      (∀ j (hj : j < rest.length), gk ((t + j : Nat) : Int) = rest[j].code ∧
        (masked && !mk ((t + j : Nat) : Int)) = !rest[j].sel ∧ (rest[j].val = .nan → nullv = .nan)) →
      MaxInv nullv w t st m →
      let fin := (rest.map (·.val)).foldl
        (rolling_max_or_min_loop2_step k gkl gk w minp ml masked mk wantMax masked (!wantMax) ng ng w ng ng ng ng ol) st
      fin.err = false ∧ (∀ j : Int, j < t → fin.out' j = st.out' j) ∧
      (∀ j, j < rest.length → fin.out' ((t + j : Nat) : Int) =
        cellAt (fun a _ => a) nullv (rollGo k (if wantMax then RollOp.max else RollOp.min) w minp m rest) j) := by
  intro rest
  induction rest with
  | nil => intro t st m _ h; simpa using h.herr
  | cons r rs ih =>
    intro t st m harr hinv fin
    have h0 := harr 0 (by simp)
    simp only [Nat.add_zero, List.getElem_cons_zero] at h0
    have hstep := max_step k wantMax nullv w hw minp gk masked mk ng ml gkl ol t st m r h0.1 h0.2.1 h0.2.2 hinv
    obtain ⟨hinv', hold, hcell⟩ := hstep
    have harr' : ∀ j (hj : j < rs.length), gk ((t + 1 + j : Nat) : Int) = rs[j].code ∧
        (masked && !mk ((t + 1 + j : Nat) : Int)) = !rs[j].sel ∧ (rs[j].val = .nan → nullv = .nan) := by
      intro j hj
      have := harr (j + 1) (by simp; omega)
      have e : t + (j + 1) = t + 1 + j := by omega
      simpa [e] using this
    have hstepm : rollStep k (if wantMax then RollOp.max else RollOp.min) w = mstep k w wantMax := by
      funext s v; cases wantMax <;> rfl
    have hrec := ih (t + 1) _ _ harr' hinv'
    obtain ⟨r0, r1, r2⟩ := hrec
    simp only [fin, List.map_cons, List.foldl_cons]
    refine ⟨r0, fun j hj => ?_, fun j hj => ?_⟩
    · rw [r1 j (by omega)]; exact hold j hj
    · cases j with
      | zero =>
        simp only [Nat.add_zero]
        rw [r1 _ (by omega), hcell]
        simp only [rollGo, cellAt, hstepm]
        by_cases hc : (decide (r.code < 0) || !r.sel) = true <;> simp [hc]
      | succ j =>
        have e : t + (j + 1) = t + 1 + j := by omega
        rw [e, r2 j (by simpa using hj)]
        simp only [rollGo, cellAt, hstepm]
        by_cases hc : (decide (r.code < 0) || !r.sel) = true <;> simp [hc]

def mx2of1 (s : Rolling_max_or_min_loop1St) : Rolling_max_or_min_loop2St :=
  ⟨s.i, s.group_non_null, s.group_buffers, s.current_best, s.pos_of_current_best, s.group_buffer_pos, s.group_n_seen, s.out', s.err⟩
def mx1of2 (s : Rolling_max_or_min_loop2St) : Rolling_max_or_min_loop1St :=
  ⟨s.i, s.group_buffers, s.group_buffer_pos, s.group_non_null, s.current_best, s.pos_of_current_best, s.group_n_seen, s.out', s.err⟩

theorem max_chunks_fold (k : Kind) (gkl : Int) (gk : Int → Int) (w mp ml : Int) (ms : Bool)
    (mk : Int → Bool) (wm ms' wn : Bool) (b1 b2 pl nl cl pcl sel ol : Int) (chunks : List (List Val))
    (st : Rolling_max_or_min_loop1St) :
    chunks.foldl (rolling_max_or_min_loop1_step k gkl gk w mp ml ms mk wm ms' wn b1 b2 pl nl cl pcl sel ol) st =
      mx1of2 (chunks.flatten.foldl (rolling_max_or_min_loop2_step k gkl gk w mp ml ms mk wm ms' wn nl b1 b2 cl pcl pl sel ol)
        (mx2of1 st)) := by
  induction chunks generalizing st with
  | nil => rfl
  | cons c cs ih =>
    simp only [List.foldl_cons, List.flatten_cons, List.foldl_append]
    rw [ih]
    rfl

/-- **`_rolling_max_or_min_1d` (with its helper `min_or_max_and_position`) is the ring-buffer model `rolling k max|min`**:
every output cell holds the model's cell, no error is raised and the helper's `while` loop stays within its bound -/
theorem rolling_max_or_min_eq (k : Kind) (wantMax : Bool) (w : Nat) (hw : 0 < w) (minp : Option Nat) (codes : List Int)
    (chunks : List (List Val)) (msk : List Bool) (masked : Bool) (ng ml : Int)
    (hlen : codes.length = chunks.flatten.length)
    (hnan : ∀ v ∈ chunks.flatten, v = .nan → nullValue k = .nan) :
    let rows := cumRows codes chunks.flatten masked msk
    let r := rolling_max_or_min k codes.length (arrOf codes 0) chunks ng w minp.isSome (minp.getD 0) masked ml
      (arrOf msk true) (nullValue k) wantMax
    r.2 = false ∧ ∀ j, j < codes.length →
      r.1 (j : Int) = cellAt (fun a _ => a) (nullValue k)
        (rolling k (if wantMax then RollOp.max else RollOp.min) w (minp.getD w) rows) j := by
  intro rows r
  have hvals : chunks.flatten = rows.map (·.val) := by
    simp only [rows, cumRows, List.map_map]
    have := list_eq_map_range chunks.flatten Val.nan
    rw [← hlen] at this
    exact this
  have hrl : rows.length = codes.length := by simp [rows, cumRows]
  have h0 : MaxInv (nullValue k) w 0
      (mx2of1 ⟨-1, fun _ _ => nullValue k, fun _ => 0, fun _ => 0, fun _ => nullValue k, fun _ => 0, fun _ => 0,
        fun _ => nullValue k, false⟩) (fun _ => rinit k w) := by
    refine ⟨by simp [mx2of1], fun _ _ => rfl, rfl, fun _ _ h => h, fun _ _ h => h, fun g _ => ?_,
      fun g _ => by simp [mx2of1, rinit]⟩
    refine ⟨?_, by simp [mx2of1, rinit], by simp [rinit]; exact hw, by simp [mx2of1, rinit]⟩
    apply List.ext_getElem <;> simp [rinit, rowV, mx2of1]
  have hmp : (if (!minp.isSome) = true then (w : Int) else ((minp.getD 0 : Nat) : Int)) = ((minp.getD w : Nat) : Int) := by
    cases minp <;> simp
  have hl := max_loop k wantMax (nullValue k) w hw (minp.getD w) (arrOf codes 0) masked (arrOf msk true) ng ml codes.length
    codes.length rows 0 _ _
    (by
      intro j hj
      have hj' : j < codes.length := by omega
      have hmem : rows[j].val ∈ chunks.flatten := by
        rw [hvals]; exact List.mem_map.mpr ⟨rows[j], List.getElem_mem hj, rfl⟩
      refine ⟨?_, ?_, hnan _ hmem⟩ <;> simp [rows, cumRows, hj'])
    h0
  obtain ⟨l0, _, l2⟩ := hl
  refine ⟨?_, fun j hj => ?_⟩
  · simp only [r, rolling_max_or_min, max_chunks_fold, hvals, mx1of2, hmp]
    exact l0
  · simp only [r, rolling_max_or_min, max_chunks_fold, hvals, mx1of2, rolling, hmp]
    have := l2 j (by omega)
    simpa using this

end GV.LoopBridge
