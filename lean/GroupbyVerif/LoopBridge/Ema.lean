import GroupbyVerif.LoopBridge.Basic
import GroupbyVerif.Generated.Loops
import GroupbyVerif.Model.Ema
import Mathlib.Tactic.Linarith
import Mathlib.Tactic.Ring
import Mathlib.Algebra.Order.Field.Rat

/-!
# Bridge: the translated `_ema_grouped` / `_ema_grouped_timed` are the models of `Model/Ema.lean`

The source keeps the decayed numerator / denominator / previous output (/ previous timestamp) of every group in
arrays indexed by the code; the models keep one record `ESt` per group and compute over `Rat`.  The translation
computes over `FVal` (NaN or an exact rational).  A row is *invalid* for the model when its value is NaN or the mask
drops it (`obsOf`).  The time-weighted decay `exp(-ln 2 · Δt / halflife)` is an uninterpreted function of the source
(`expf`, `ln2`): the model's abstract `decay Δt` is instantiated with it.
-/

namespace GV.LoopBridge
open GV GV.Generated.Loops

/-- rendering of an optional rational as a float cell -/
def optF : Option Rat → FVal
  | none => .nan
  | some v => .q v

/-- the observation the model sees at a row: `none` when the value is NaN or the row is dropped by the mask -/
def obsOf (v : FVal) (dropped : Bool) : Option Rat :=
  match v with
  | .nan => none
  | .q x => if dropped then none else some x

/-- the output cell for a model output: NaN for a null-key row and for "no output yet" -/
def emaCell (l : List (Option (Option Rat))) (j : Nat) : FVal :=
  match l[j]? with
  | some (some (some v)) => .q v
  | _ => .nan

structure EmaInv (t : Nat) (outA : Int → FVal) (rA wA lA : Int → FVal) (m : Int → ESt) : Prop where
  hst : ∀ g : Int, 0 ≤ g → rA g = .q (m g).r ∧ wA g = .q (m g).w ∧ lA g = optF (m g).last ∧ 0 ≤ (m g).w

theorem ema_step (k : Kind) (β : Rat) (hβ : 0 ≤ β) (gk : Int → Int) (vals : Int → FVal) (masked : Bool)
    (mk : Int → Bool) (ng ml gkl vl ol : Int) (t : Nat) (st : Ema_grouped_loop1St) (m : Int → ESt) (code : Int)
    (x : Option Rat) (hcode : gk (t : Int) = code) (hx : obsOf (vals (t : Int)) (masked && !mk (t : Int)) = x)
    (h : EmaInv t st.out' st.residuals st.residual_weights st.last_seen m) :
    let st' := ema_grouped_loop1_step k gkl gk vl vals ml masked mk (.q β) masked ol ng ng ng st (t : Int)
    let m' := if code < 0 then m else upd m code (emaStep β (m code) x)
    EmaInv (t + 1) st'.out' st'.residuals st'.residual_weights st'.last_seen m' ∧
      (∀ j : Int, j ≠ (t : Int) → st'.out' j = st.out' j) ∧
      st'.out' (t : Int) = (if code < 0 then .nan else optF (emaOut (m code) x)) := by
  obtain ⟨so, sw, sr, sl⟩ := st
  obtain ⟨hst⟩ := h
  simp only at hst
  intro st' m'
  simp only [st', m', ema_grouped_loop1_step, normI_natCast, hcode]
  by_cases hk : code < 0
  · simp only [hk, decide_true, if_true]
    exact ⟨⟨hst⟩, fun j hj => by simp [aset_apply, hj], by simp [aset_apply]⟩
  · have hk0 : 0 ≤ code := by omega
    simp only [hk, decide_false, Bool.false_eq_true, if_false, normI_nonneg _ _ hk0]
    obtain ⟨kr, kw, kl, kw0⟩ := hst _ hk0
    have h1w : (1 : Rat) + (m code).w ≠ 0 := by
      intro h
      linarith
    cases hv : vals (t : Int) with
    | nan =>
      -- NaN value: the previous output is repeated, the state only decays
      have hx' : x = none := by rw [← hx, hv]; rfl
      subst hx'
      simp only [FVal.isNan, Bool.true_or, if_true, kr, kw, kl, aset_apply, if_true]
      refine ⟨⟨fun g hg => ?_⟩, fun j hj => by simp [hj], by simp [emaOut]⟩
      obtain ⟨gr, gw, gl, gw0⟩ := hst g hg
      by_cases e : g = code
      · subst e
        simp only [upd, if_true, emaStep, FVal.mul, aset_apply]
        exact ⟨by first | trivial | ring_nf, by first | trivial | ring_nf, by first | trivial | exact kl, Rat.mul_nonneg gw0 hβ⟩
      · simp only [upd, e, if_false, aset_apply]
        exact ⟨gr, gw, gl, gw0⟩
    | q v =>
      by_cases hd : (masked && !mk (t : Int)) = true
      · have hx' : x = none := by rw [← hx, hv]; simp [obsOf, hd]
        subst hx'
        simp only [FVal.isNan, hd, Bool.or_true, if_true, kr, kw, kl, aset_apply, if_true]
        refine ⟨⟨fun g hg => ?_⟩, fun j hj => by simp [hj], by simp [emaOut]⟩
        obtain ⟨gr, gw, gl, gw0⟩ := hst g hg
        by_cases e : g = code
        · subst e
          simp only [upd, if_true, emaStep, FVal.mul, aset_apply]
          exact ⟨by first | trivial | ring_nf, by first | trivial | ring_nf, by first | trivial | exact kl, Rat.mul_nonneg gw0 hβ⟩
        · simp only [upd, e, if_false, aset_apply]
          exact ⟨gr, gw, gl, gw0⟩
      · have hd' : (masked && !mk (t : Int)) = false := by
          cases h' : (masked && !mk (t : Int)) <;> simp_all
        have hx' : x = some v := by rw [← hx, hv]; simp [obsOf, hd']
        subst hx'
        simp only [FVal.isNan, hd', Bool.or_false, Bool.false_eq_true, if_false, kr, kw, aset_apply, if_true,
          FVal.add, FVal.div, FVal.ofInt, FVal.mul]
        have h1w' : ¬ ((1 : Rat) + (m code).w = 0) := h1w
        have hcast : ((1 : Int) : Rat) = 1 := by simp
        simp only [hcast, h1w', if_false]
        refine ⟨⟨fun g hg => ?_⟩, fun j hj => by simp [hj], by simp [emaOut, optF]⟩
        obtain ⟨gr, gw, gl, gw0⟩ := hst g hg
        by_cases e : g = code
        · subst e
          simp only [upd, if_true, emaStep, optF, aset_apply]
          refine ⟨by first | trivial | ring_nf, by first | trivial | ring_nf, by first | trivial | rfl, Rat.mul_nonneg ?_ hβ⟩
          exact Rat.add_nonneg gw0 (by decide)
        · simp only [upd, e, if_false, aset_apply]
          exact ⟨gr, gw, gl, gw0⟩

theorem loopGo_length {σ β ρ : Type} (step : σ → β → σ) (out : σ → β → ρ) (m : Int → σ) (rows : List (Int × β)) :
    (loopGo step out m rows).length = rows.length := by
  induction rows generalizing m with
  | nil => simp [loopGo]
  | cons r rs ih =>
    simp only [loopGo]
    split <;> simp [ih]

theorem ema_loop (k : Kind) (β : Rat) (hβ : 0 ≤ β) (gk : Int → Int) (vals : Int → FVal) (masked : Bool)
    (mk : Int → Bool) (ng ml gkl vl ol : Int) :
    ∀ (rest : List (Int × Option Rat)) (t : Nat) (st : Ema_grouped_loop1St) (m : Int → ESt),
      (∀ j (hj : j < rest.length), gk ((t + j : Nat) : Int) = rest[j].1 ∧
        obsOf (vals ((t + j : Nat) : Int)) (masked && !mk ((t + j : Nat) : Int)) = rest[j].2) →
      EmaInv t st.out' st.residuals st.residual_weights st.last_seen m →
      let fin := ((List.range' t rest.length).map (fun i : Nat => (i : Int))).foldl
        (ema_grouped_loop1_step k gkl gk vl vals ml masked mk (.q β) masked ol ng ng ng) st
      (∀ j : Int, j < t → fin.out' j = st.out' j) ∧
      (∀ j, j < rest.length → fin.out' ((t + j : Nat) : Int) = emaCell (loopGo (emaStep β) emaOut m rest) j) := by
  intro rest
  induction rest with
  | nil => intro t st m _ _; simp
  | cons r rs ih =>
    intro t st m harr hinv fin
    have h0 := harr 0 (by simp)
    simp only [Nat.add_zero, List.getElem_cons_zero] at h0
    have hstep := ema_step k β hβ gk vals masked mk ng ml gkl vl ol t st m r.1 r.2 h0.1 h0.2 hinv
    obtain ⟨hinv', hold, hcell⟩ := hstep
    have harr' : ∀ j (hj : j < rs.length), gk ((t + 1 + j : Nat) : Int) = rs[j].1 ∧
        obsOf (vals ((t + 1 + j : Nat) : Int)) (masked && !mk ((t + 1 + j : Nat) : Int)) = rs[j].2 := by
      intro j hj
      have := harr (j + 1) (by simp; omega)
      have e : t + (j + 1) = t + 1 + j := by omega
      simpa [e] using this
    have hrec := ih (t + 1) _ _ harr' hinv'
    obtain ⟨r1, r2⟩ := hrec
    simp only [fin, List.length_cons, List.range'_succ, List.map_cons, List.foldl_cons]
    refine ⟨fun j hj => ?_, fun j hj => ?_⟩
    · rw [r1 j (by omega)]; exact hold j (by omega)
    · cases j with
      | zero =>
        simp only [Nat.add_zero]
        rw [r1 _ (by omega), hcell]
        simp only [loopGo, emaCell]
        by_cases hc : r.1 < 0
        · simp [hc]
        · simp only [hc, if_false, List.getElem?_cons_zero]
          cases emaOut (m r.1) r.2 <;> rfl
      | succ j =>
        have e : t + (j + 1) = t + 1 + j := by omega
        rw [e, r2 j (by simpa using hj)]
        simp only [loopGo, emaCell]
        by_cases hc : r.1 < 0 <;> simp [hc]

/-- the rows the model sees: code and observation (`none` for a NaN value or a row dropped by the mask) -/
def emaRows (codes : List Int) (vals : List FVal) (masked : Bool) (msk : List Bool) : List (Int × Option Rat) :=
  (List.range codes.length).map fun i => (codes.getD i 0, obsOf (vals.getD i .nan) (masked && !(msk.getD i true)))

/-- **`_ema_grouped` is `emaGrouped`**: with `alpha = 1 - β`, `0 ≤ β`, every output cell holds the model's output
(NaN at a null-key row and before the group's first valid observation) -/
theorem ema_grouped_eq (k : Kind) (β : Rat) (hβ : 0 ≤ β) (codes : List Int) (vals : List FVal) (msk : List Bool)
    (masked : Bool) (ng ml : Int) (hlen : codes.length = vals.length) :
    let r := ema_grouped k codes.length (arrOf codes 0) vals.length (arrOf vals .nan) (.q (1 - β)) ng masked ml
      (arrOf msk true)
    r.2 = false ∧ ∀ j, j < codes.length →
      r.1 (j : Int) = emaCell (emaGrouped β (emaRows codes vals masked msk)) j := by
  intro r
  have hl := ema_loop k β hβ (arrOf codes 0) (arrOf vals .nan) masked (arrOf msk true) ng ml codes.length vals.length
    vals.length (emaRows codes vals masked msk) 0 ⟨fun _ => .ofInt 0, fun _ => .ofInt 0, fun _ => .ofInt 0, fun _ => .nan⟩
    (fun _ => eInit)
    (by
      intro j hj
      have hj' : j < codes.length := by simpa [emaRows] using hj
      simp [emaRows, hj'])
    ⟨fun g _ => ⟨by simp [eInit, FVal.ofInt], by simp [eInit, FVal.ofInt], by simp [eInit, optF], by simp [eInit]⟩⟩
  obtain ⟨_, l2⟩ := hl
  have hb : FVal.sub (FVal.ofInt 1) (FVal.q (1 - β)) = FVal.q β := by
    simp only [FVal.sub, FVal.ofInt]; congr 1; simp
  have hrl : (emaRows codes vals masked msk).length = codes.length := by simp [emaRows]
  refine ⟨by simp [r, ema_grouped], fun j hj => ?_⟩
  have := l2 j (by omega)
  simp only [r, ema_grouped, ← hlen, Int.min_self, rangeI_natCast, hb, emaGrouped]
  rw [hrl, List.range_eq_range'] at *
  rw [← hlen] at this
  simpa using this

/-! ### time-weighted -/

def lastTOf : Option Int → Int
  | none => minInt64
  | some t => t

structure EmaTInv (rA wA lA : Int → FVal) (tA : Int → Int) (m : Int → ESt) : Prop where
  hst : ∀ g : Int, 0 ≤ g → rA g = .q (m g).r ∧ wA g = .q (m g).w ∧ lA g = optF (m g).last ∧ 0 ≤ (m g).w ∧
    tA g = lastTOf (m g).lastT ∧ (∀ t0, (m g).lastT = some t0 → t0 ≠ minInt64)

theorem emat_step (k : Kind) (ln2 : FVal) (expf : FVal → FVal) (halflife : Int) (decay : Int → Rat)
    (hdec : ∀ d : Int, expf (FVal.mul (FVal.neg ln2) (FVal.divII d halflife)) = .q (decay d))
    (hdec0 : ∀ d : Int, 0 ≤ decay d)
    (gk : Int → Int) (vals : Int → FVal) (times : Int → Int) (masked : Bool)
    (mk : Int → Bool) (ng ml gkl vl tl ol : Int) (t : Nat) (st : Ema_grouped_timed_loop1St) (m : Int → ESt) (code : Int)
    (x : Option Rat) (hcode : gk (t : Int) = code) (hx : obsOf (vals (t : Int)) (masked && !mk (t : Int)) = x)
    (htime : times (t : Int) ≠ minInt64)
    (h : EmaTInv st.residuals st.residual_weights st.last_seen st.last_seen_times m) :
    let st' := ema_grouped_timed_loop1_step k ln2 expf gkl gk vl vals tl times halflife ml masked mk masked ol ng ng ng ng st
      (t : Int)
    let m' := if code < 0 then m else upd m code (emaStepTimed decay (m code) (times (t : Int), x))
    EmaTInv st'.residuals st'.residual_weights st'.last_seen st'.last_seen_times m' ∧
      (∀ j : Int, j ≠ (t : Int) → st'.out' j = st.out' j) ∧
      st'.out' (t : Int) = (if code < 0 then .nan else optF (emaOutTimed decay (m code) (times (t : Int), x))) := by
  obtain ⟨so, sr, sw, stt, sl⟩ := st
  obtain ⟨hst⟩ := h
  simp only at hst
  intro st' m'
  simp only [st', m', ema_grouped_timed_loop1_step, normI_natCast, hcode]
  by_cases hk : code < 0
  · simp only [hk, decide_true, if_true]
    exact ⟨⟨hst⟩, fun j hj => by simp [aset_apply, hj], by simp [aset_apply]⟩
  · have hk0 : 0 ≤ code := by omega
    simp only [hk, decide_false, Bool.false_eq_true, if_false, normI_nonneg _ _ hk0]
    obtain ⟨kr, kw, kl, kw0, kt, ktn⟩ := hst _ hk0
    -- the decayed state of the row's group, in both worlds
    have hdecayed : ∃ r' w' : Rat,
        (decayed decay (m code) (times (t : Int))).r = r' ∧ (decayed decay (m code) (times (t : Int))).w = w' ∧
        0 ≤ w' ∧ (decayed decay (m code) (times (t : Int))).last = (m code).last ∧
        (if decide (stt code ≠ (-9223372036854775808 : Int)) = true then
            aset sr code (FVal.mul (sr code) (expf (FVal.mul (FVal.neg ln2) (FVal.divII (times (t : Int) - stt code) halflife))))
          else sr) code = .q r' ∧
        (if decide (stt code ≠ (-9223372036854775808 : Int)) = true then
            aset sw code (FVal.mul (sw code) (expf (FVal.mul (FVal.neg ln2) (FVal.divII (times (t : Int) - stt code) halflife))))
          else sw) code = .q w' := by
      cases hlt : (m code).lastT with
      | none =>
        have : stt code = (-9223372036854775808 : Int) := by rw [kt, hlt]; rfl
        refine ⟨(m code).r, (m code).w, by simp [decayed, hlt], by simp [decayed, hlt], kw0, by simp [decayed, hlt], ?_, ?_⟩
        · simp [this, kr]
        · simp [this, kw]
      | some t0 =>
        have hne : stt code ≠ (-9223372036854775808 : Int) := by
          rw [kt, hlt]; exact ktn t0 hlt
        have hst0 : stt code = t0 := by rw [kt, hlt]; rfl
        refine ⟨(m code).r * decay (times (t : Int) - t0), (m code).w * decay (times (t : Int) - t0),
          by simp [decayed, hlt], by simp [decayed, hlt], Rat.mul_nonneg kw0 (hdec0 _), by simp [decayed, hlt], ?_, ?_⟩
        · have hd : decide (stt code ≠ (-9223372036854775808 : Int)) = true := by simpa using hne
          rw [if_pos hd, aset_same, kr, hst0, hdec]; rfl
        · have hd : decide (stt code ≠ (-9223372036854775808 : Int)) = true := by simpa using hne
          rw [if_pos hd, aset_same, kw, hst0, hdec]; rfl
    obtain ⟨r', w', hr', hw', hw0, hlast, hgr, hgw⟩ := hdecayed
    have hother : ∀ g : Int, g ≠ code →
        (if decide (stt code ≠ (-9223372036854775808 : Int)) = true then
            aset sr code (FVal.mul (sr code) (expf (FVal.mul (FVal.neg ln2) (FVal.divII (times (t : Int) - stt code) halflife))))
          else sr) g = sr g ∧
        (if decide (stt code ≠ (-9223372036854775808 : Int)) = true then
            aset sw code (FVal.mul (sw code) (expf (FVal.mul (FVal.neg ln2) (FVal.divII (times (t : Int) - stt code) halflife))))
          else sw) g = sw g := by
      intro g hg
      by_cases hd : decide (stt code ≠ (-9223372036854775808 : Int)) = true <;> simp [hd, aset_apply, hg]
    generalize (if decide (stt code ≠ (-9223372036854775808 : Int)) = true then
        aset sr code (FVal.mul (sr code) (expf (FVal.mul (FVal.neg ln2) (FVal.divII (times (t : Int) - stt code) halflife))))
      else sr) = R4 at *
    generalize (if decide (stt code ≠ (-9223372036854775808 : Int)) = true then
        aset sw code (FVal.mul (sw code) (expf (FVal.mul (FVal.neg ln2) (FVal.divII (times (t : Int) - stt code) halflife))))
      else sw) = W4 at *
    have h1w : ¬ ((1 : Rat) + w' = 0) := by intro h; linarith
    have hcast : ((1 : Int) : Rat) = 1 := by simp
    have hinvalid : ∀ hxn : x = none,
        EmaTInv R4 W4 (aset sl code (aset so (t : Int) (sl code) (t : Int))) (aset stt code (times (t : Int)))
          (upd m code (emaStepTimed decay (m code) (times (t : Int), x))) := by
      intro hxn
      subst hxn
      refine ⟨fun g hg => ?_⟩
      obtain ⟨gr, gw, gl, gw0, gt, gtn⟩ := hst g hg
      by_cases e : g = code
      · subst e
        simp only [upd, if_true, emaStepTimed, aset_apply, hgr, hgw, hr', hw', hlast]
        refine ⟨trivial, trivial, kl, hw0, rfl, ?_⟩
        intro t0 ht0
        simp only [Option.some.injEq] at ht0
        rw [← ht0]; exact htime
      · simp only [upd, e, if_false, aset_apply, (hother g e).1, (hother g e).2]
        exact ⟨gr, gw, gl, gw0, gt, gtn⟩
    cases hv : vals (t : Int) with
    | nan =>
      have hx' : x = none := by rw [← hx, hv]; rfl
      simp only [FVal.isNan, Bool.true_or, if_true]
      refine ⟨hinvalid hx', fun j hj => by simp [aset_apply, hj], ?_⟩
      subst hx'
      simp [aset_apply, emaOutTimed, emaOut, kl, hlast]
    | q v =>
      by_cases hd : (masked && !mk (t : Int)) = true
      · have hx' : x = none := by rw [← hx, hv]; simp [obsOf, hd]
        simp only [FVal.isNan, hd, Bool.or_true, if_true]
        refine ⟨hinvalid hx', fun j hj => by simp [aset_apply, hj], ?_⟩
        subst hx'
        simp [aset_apply, emaOutTimed, emaOut, kl, hlast]
      · have hd' : (masked && !mk (t : Int)) = false := by
          cases h' : (masked && !mk (t : Int)) <;> simp_all
        have hx' : x = some v := by rw [← hx, hv]; simp [obsOf, hd']
        subst hx'
        simp only [FVal.isNan, hd', Bool.or_false, Bool.false_eq_true, if_false, hgr, hgw, aset_apply, if_true,
          FVal.add, FVal.div, FVal.ofInt, hcast, h1w]
        refine ⟨⟨fun g hg => ?_⟩, fun j hj => by simp [hj], by simp [emaOutTimed, emaOut, optF, hr', hw']⟩
        obtain ⟨gr, gw, gl, gw0, gt, gtn⟩ := hst g hg
        by_cases e : g = code
        · subst e
          simp only [upd, if_true, emaStepTimed, optF, aset_apply, hr', hw']
          refine ⟨by first | trivial | ring_nf, by first | trivial | ring_nf, by first | trivial | rfl, by linarith, rfl, ?_⟩
          intro t0 ht0
          simp only [Option.some.injEq] at ht0
          rw [← ht0]; exact htime
        · simp only [upd, e, if_false, aset_apply, (hother g e).1, (hother g e).2]
          exact ⟨gr, gw, gl, gw0, gt, gtn⟩

theorem emat_loop (k : Kind) (ln2 : FVal) (expf : FVal → FVal) (halflife : Int) (decay : Int → Rat)
    (hdec : ∀ d : Int, expf (FVal.mul (FVal.neg ln2) (FVal.divII d halflife)) = .q (decay d))
    (hdec0 : ∀ d : Int, 0 ≤ decay d)
    (gk : Int → Int) (vals : Int → FVal) (times : Int → Int) (masked : Bool)
    (mk : Int → Bool) (ng ml gkl vl tl ol : Int) :
    ∀ (rest : List (Int × (Int × Option Rat))) (t : Nat) (st : Ema_grouped_timed_loop1St) (m : Int → ESt),
      (∀ j (hj : j < rest.length), gk ((t + j : Nat) : Int) = rest[j].1 ∧
        times ((t + j : Nat) : Int) = rest[j].2.1 ∧ rest[j].2.1 ≠ minInt64 ∧
        obsOf (vals ((t + j : Nat) : Int)) (masked && !mk ((t + j : Nat) : Int)) = rest[j].2.2) →
      EmaTInv st.residuals st.residual_weights st.last_seen st.last_seen_times m →
      let fin := ((List.range' t rest.length).map (fun i : Nat => (i : Int))).foldl
        (ema_grouped_timed_loop1_step k ln2 expf gkl gk vl vals tl times halflife ml masked mk masked ol ng ng ng ng) st
      (∀ j : Int, j < t → fin.out' j = st.out' j) ∧
      (∀ j, j < rest.length →
        fin.out' ((t + j : Nat) : Int) = emaCell (loopGo (emaStepTimed decay) (emaOutTimed decay) m rest) j) := by
  intro rest
  induction rest with
  | nil => intro t st m _ _; simp
  | cons r rs ih =>
    intro t st m harr hinv fin
    have h0 := harr 0 (by simp)
    simp only [Nat.add_zero, List.getElem_cons_zero] at h0
    obtain ⟨h01, h02, h03, h04⟩ := h0
    have hstep := emat_step k ln2 expf halflife decay hdec hdec0 gk vals times masked mk ng ml gkl vl tl ol t st m r.1 r.2.2
      h01 h04 (by rw [h02]; exact h03) hinv
    obtain ⟨hinv', hold, hcell⟩ := hstep
    rw [h02] at hinv' hcell
    have harr' : ∀ j (hj : j < rs.length), gk ((t + 1 + j : Nat) : Int) = rs[j].1 ∧
        times ((t + 1 + j : Nat) : Int) = rs[j].2.1 ∧ rs[j].2.1 ≠ minInt64 ∧
        obsOf (vals ((t + 1 + j : Nat) : Int)) (masked && !mk ((t + 1 + j : Nat) : Int)) = rs[j].2.2 := by
      intro j hj
      have := harr (j + 1) (by simp; omega)
      have e : t + (j + 1) = t + 1 + j := by omega
      simpa [e] using this
    have hrec := ih (t + 1) _ _ harr' hinv'
    obtain ⟨r1, r2⟩ := hrec
    simp only [fin, List.length_cons, List.range'_succ, List.map_cons, List.foldl_cons]
    refine ⟨fun j hj => ?_, fun j hj => ?_⟩
    · rw [r1 j (by omega)]; exact hold j (by omega)
    · cases j with
      | zero =>
        simp only [Nat.add_zero]
        rw [r1 _ (by omega), hcell]
        simp only [loopGo, emaCell]
        by_cases hc : r.1 < 0
        · simp [hc]
        · simp only [hc, if_false, List.getElem?_cons_zero]
          cases emaOutTimed decay (m r.1) r.2 <;> rfl
      | succ j =>
        have e : t + (j + 1) = t + 1 + j := by omega
        rw [e, r2 j (by simpa using hj)]
        simp only [loopGo, emaCell]
        by_cases hc : r.1 < 0 <;> simp [hc]

/-- the rows the timed model sees: code, timestamp and observation -/
def emaTRows (codes : List Int) (vals : List FVal) (times : List Int) (masked : Bool) (msk : List Bool) :
    List (Int × (Int × Option Rat)) :=
  (List.range codes.length).map fun i =>
    (codes.getD i 0, (times.getD i 0, obsOf (vals.getD i .nan) (masked && !(msk.getD i true))))

/-- **`_ema_grouped_timed` is `emaGroupedTimed`** with the decay `Δt ↦ exp(-ln 2 · Δt / halflife)` of the source
(given as an uninterpreted `expf` / `ln2` whose values on those arguments are the rationals `decay Δt ≥ 0`), for
timestamps different from the "not seen" sentinel (the int64 minimum, i.e. NaT) -/
theorem ema_grouped_timed_eq (k : Kind) (ln2 : FVal) (expf : FVal → FVal) (halflife : Int) (decay : Int → Rat)
    (hdec : ∀ d : Int, expf (FVal.mul (FVal.neg ln2) (FVal.divII d halflife)) = .q (decay d))
    (hdec0 : ∀ d : Int, 0 ≤ decay d)
    (codes : List Int) (vals : List FVal) (times : List Int) (msk : List Bool)
    (masked : Bool) (ng ml : Int) (hlen : codes.length = vals.length) (hlent : codes.length = times.length)
    (htimes : ∀ t ∈ times, t ≠ minInt64) :
    let r := ema_grouped_timed k ln2 expf codes.length (arrOf codes 0) vals.length (arrOf vals .nan) times.length
      (arrOf times 0) halflife ng masked ml (arrOf msk true)
    r.2 = false ∧ ∀ j, j < codes.length →
      r.1 (j : Int) = emaCell (emaGroupedTimed decay (emaTRows codes vals times masked msk)) j := by
  intro r
  have hl := emat_loop k ln2 expf halflife decay hdec hdec0 (arrOf codes 0) (arrOf vals .nan) (arrOf times 0) masked
    (arrOf msk true) ng ml codes.length vals.length times.length vals.length (emaTRows codes vals times masked msk) 0
    ⟨fun _ => .ofInt 0, fun _ => .ofInt 0, fun _ => .ofInt 0, fun _ => minInt64, fun _ => .nan⟩
    (fun _ => eInit)
    (by
      intro j hj
      have hj' : j < codes.length := by simpa [emaTRows] using hj
      have hjt : j < times.length := by omega
      have hmem : times.getD j 0 ∈ times := by
        rw [List.getD_eq_getElem?_getD, List.getElem?_eq_getElem hjt]; exact List.getElem_mem hjt
      refine ⟨by simp [emaTRows, hj'], by simp [emaTRows, hj'], ?_, by simp [emaTRows, hj']⟩
      simpa [emaTRows, hj'] using htimes _ hmem)
    ⟨fun g _ => ⟨by simp [eInit, FVal.ofInt], by simp [eInit, FVal.ofInt], by simp [eInit, optF], by simp [eInit],
      by simp [eInit, lastTOf], by simp [eInit]⟩⟩
  obtain ⟨_, l2⟩ := hl
  have hrl : (emaTRows codes vals times masked msk).length = codes.length := by simp [emaTRows]
  refine ⟨by simp [r, ema_grouped_timed], fun j hj => ?_⟩
  have := l2 j (by omega)
  simp only [r, ema_grouped_timed, ← hlen, Int.min_self, rangeI_natCast, emaGroupedTimed]
  rw [hrl, List.range_eq_range'] at *
  rw [← hlen] at this
  simpa [minInt64] using this

/-! ### the ungrouped `_ema_adjusted` -/

/-- running state of a single series (the model's `emaStep` folded from the empty state) -/
def runE (β : Rat) (xs : List (Option Rat)) : ESt := xs.foldl (emaStep β) eInit

structure AdjInv (β : Rat) (xs : List (Option Rat)) (t : Nat) (st : Ema_adjusted_loop1St) : Prop where
  hr : st.residual = .q (runE β (xs.take t)).r
  hw : st.residual_weights = .q (runE β (xs.take t)).w
  hw0 : 0 ≤ (runE β (xs.take t)).w
  hlast : (∃ j, j < t ∧ ∃ v, xs[j]? = some (some v)) → 0 < t ∧ st.out' ((t : Int) - 1) = optF (runE β (xs.take t)).last

theorem runE_snoc (β : Rat) (xs : List (Option Rat)) (t : Nat) (ht : t < xs.length) :
    runE β (xs.take (t + 1)) = emaStep β (runE β (xs.take t)) xs[t] := by
  unfold runE
  rw [List.take_succ_eq_append_getElem ht, List.foldl_append]
  rfl

theorem adj_step (k : Kind) (β : Rat) (hβ : 0 ≤ β) (vals : List FVal) (xs : List (Option Rat))
    (hxs : xs = vals.map (fun v => obsOf v false)) (t : Nat) (ht : t < vals.length) (st : Ema_adjusted_loop1St)
    (h : AdjInv β xs t st) :
    let st' := ema_adjusted_loop1_step k vals.length (arrOf vals .nan) (.q β) vals.length st (t : Int)
    AdjInv β xs (t + 1) st' ∧ (∀ j : Int, j ≠ (t : Int) → st'.out' j = st.out' j) ∧
      ((∃ j, j < t + 1 ∧ ∃ v, xs[j]? = some (some v)) →
        st'.out' (t : Int) = optF (emaOut (runE β (xs.take t)) (xs.getD t none))) := by
  obtain ⟨so, sw, sr⟩ := st
  obtain ⟨hr, hw, hw0, hlast⟩ := h
  simp only at hr hw hw0 hlast
  have htx : t < xs.length := by rw [hxs]; simpa using ht
  have hxt : xs[t] = obsOf (vals.getD t .nan) false := by
    subst hxs; simp [List.getD_eq_getElem?_getD, ht]
  intro st'
  simp only [st', ema_adjusted_loop1_step, normI_natCast, arrOf_natCast, hr, hw]
  have h1w : ¬ ((1 : Rat) + (runE β (xs.take t)).w = 0) := by intro h; linarith
  have hcast : ((1 : Int) : Rat) = 1 := by simp
  cases hv : vals.getD t .nan with
  | nan =>
    have hxn : xs[t] = none := by rw [hxt, hv]; rfl
    have hgd : xs.getD t none = none := by rw [List.getD_eq_getElem?_getD, List.getElem?_eq_getElem htx, hxn]; rfl
    have hisn : FVal.isNan FVal.nan = true := rfl
    simp only [hisn, if_true, FVal.mul]
    refine ⟨⟨?_, ?_, ?_, ?_⟩, fun j hj => by simp [aset_apply, hj], ?_⟩
    · rw [runE_snoc β xs t htx, hxn]; rfl
    · rw [runE_snoc β xs t htx, hxn]; rfl
    · rw [runE_snoc β xs t htx, hxn]; exact Rat.mul_nonneg hw0 hβ
    · intro hex
      refine ⟨by omega, ?_⟩
      have hex' : ∃ j, j < t ∧ ∃ v, xs[j]? = some (some v) := by
        obtain ⟨j, hj, v, hjv⟩ := hex
        by_cases e : j = t
        · subst e; rw [List.getElem?_eq_getElem htx, hxn] at hjv; cases hjv
        · exact ⟨j, by omega, v, hjv⟩
      obtain ⟨ht0, hl⟩ := hlast hex'
      have e1 : ((t + 1 : Nat) : Int) - 1 = (t : Int) := by omega
      rw [e1]
      have e2 : normI (vals.length : Int) ((t : Int) - 1) = (t : Int) - 1 := normI_nonneg _ _ (by omega)
      show aset so (t : Int) _ (t : Int) = _
      rw [aset_same, e2, hl, runE_snoc β xs t htx, hxn]; rfl
    · intro hex
      have hex' : ∃ j, j < t ∧ ∃ v, xs[j]? = some (some v) := by
        obtain ⟨j, hj, v, hjv⟩ := hex
        by_cases e : j = t
        · subst e; rw [List.getElem?_eq_getElem htx, hxn] at hjv; cases hjv
        · exact ⟨j, by omega, v, hjv⟩
      obtain ⟨ht0, hl⟩ := hlast hex'
      have e2 : normI (vals.length : Int) ((t : Int) - 1) = (t : Int) - 1 := normI_nonneg _ _ (by omega)
      rw [e2, hl, hgd, aset_same]; rfl
  | q v =>
    have hxn : xs[t] = some v := by rw [hxt, hv]; rfl
    have hgd : xs.getD t none = some v := by rw [List.getD_eq_getElem?_getD, List.getElem?_eq_getElem htx, hxn]; rfl
    have hisq : FVal.isNan (FVal.q v) = false := rfl
    simp only [hisq, Bool.false_eq_true, if_false, FVal.mul, FVal.add, FVal.div, FVal.ofInt, hcast, h1w]
    refine ⟨⟨?_, ?_, ?_, ?_⟩, fun j hj => by simp [aset_apply, hj], ?_⟩
    · rw [runE_snoc β xs t htx, hxn]; simp only [emaStep]
    · rw [runE_snoc β xs t htx, hxn]; simp only [emaStep]
    · rw [runE_snoc β xs t htx, hxn]; simp only [emaStep]
      exact Rat.mul_nonneg (Rat.add_nonneg hw0 (by decide)) hβ
    · intro _
      refine ⟨by omega, ?_⟩
      have e1 : ((t + 1 : Nat) : Int) - 1 = (t : Int) := by omega
      rw [e1, runE_snoc β xs t htx, hxn]
      show aset so (t : Int) _ (t : Int) = _
      rw [aset_same]
      simp [emaStep, optF]
    · intro _
      rw [hgd, aset_same]; simp [emaOut, optF]

/-- **the ungrouped `_ema_adjusted` is the single-series model** from the first valid observation on: once some value
up to row `i` is not NaN, cell `i` holds the model's output on the series' own history (before that the kernel leaves the
zero of `zeros_like` - not a claim of the property) -/
theorem ema_adjusted_eq (k : Kind) (β : Rat) (hβ : 0 ≤ β) (vals : List FVal) (i : Nat) (hi : i < vals.length)
    (hvalid : ∃ j, j < i + 1 ∧ ∃ v, (vals.map (fun v => obsOf v false))[j]? = some (some v)) :
    let xs := vals.map (fun v => obsOf v false)
    let r := ema_adjusted k vals.length (arrOf vals .nan) (.q (1 - β))
    r.2 = false ∧ r.1 (i : Int) = optF (emaOut (runE β (xs.take i)) (xs.getD i none)) := by
  intro xs r
  have hb : FVal.sub (FVal.ofInt 1) (FVal.q (1 - β)) = FVal.q β := by
    simp only [FVal.sub, FVal.ofInt]; congr 1; simp
  have key : ∀ m : Nat, m ≤ vals.length →
      let st := ((List.range m).map (fun j : Nat => (j : Int))).foldl
        (ema_adjusted_loop1_step k vals.length (arrOf vals .nan) (.q β) vals.length)
        ⟨fun _ => .ofInt 0, .ofInt 0, .ofInt 0⟩
      AdjInv β xs m st ∧ ∀ j, j < m → (∃ j', j' < j + 1 ∧ ∃ v, xs[j']? = some (some v)) →
        st.out' (j : Int) = optF (emaOut (runE β (xs.take j)) (xs.getD j none)) := by
    intro m
    induction m with
    | zero =>
      intro _ st
      refine ⟨⟨by simp [st, runE, eInit, FVal.ofInt], by simp [st, runE, eInit, FVal.ofInt], by simp [runE, eInit], ?_⟩, ?_⟩
      · rintro ⟨j, hj, _⟩; omega
      · intro j hj; omega
    | succ m ih =>
      intro hm st
      obtain ⟨hinv, hcells⟩ := ih (by omega)
      have hstep := adj_step k β hβ vals xs rfl m (by omega) _ hinv
      obtain ⟨hinv', hother, hcell⟩ := hstep
      simp only [st, List.range_succ, List.map_append, List.foldl_append, List.map_cons, List.map_nil, List.foldl_cons,
        List.foldl_nil]
      refine ⟨hinv', fun j hj hex => ?_⟩
      by_cases e : j = m
      · subst e; exact hcell hex
      · rw [hother (j : Int) (by omega)]
        exact hcells j (by omega) hex
  obtain ⟨_, hcells⟩ := key vals.length (Nat.le_refl _)
  refine ⟨by simp [r, ema_adjusted], ?_⟩
  simp only [r, ema_adjusted, hb, rangeI_natCast]
  exact hcells i hi hvalid

/-! ### the ungrouped `_ema_time_weighted` -/

/-- running state of a single timed series -/
def runTE (decay : Int → Rat) (rows : List (Int × Option Rat)) : ESt := rows.foldl (emaStepTimed decay) eInit

theorem runTE_snoc (decay : Int → Rat) (rows : List (Int × Option Rat)) (t : Nat) (ht : t < rows.length) :
    runTE decay (rows.take (t + 1)) = emaStepTimed decay (runTE decay (rows.take t)) rows[t] := by
  unfold runTE
  rw [List.take_succ_eq_append_getElem ht, List.foldl_append]
  rfl

structure TwInv (decay : Int → Rat) (rows : List (Int × Option Rat)) (t : Nat) (st : Ema_time_weighted_loop1St) : Prop where
  hr : st.residual = .q (runTE decay (rows.take t)).r
  hw : st.residual_weights = .q (runTE decay (rows.take t)).w
  hw0 : 0 ≤ (runTE decay (rows.take t)).w
  hlast : st.out' ((t : Int) - 1) = optF (runTE decay (rows.take t)).last
  hT : ∀ (h : 0 < t) (ht : t - 1 < rows.length), (runTE decay (rows.take t)).lastT = some rows[t - 1].1

theorem tw_step (k : Kind) (ln2 : FVal) (expf : FVal → FVal) (halflife : Int) (decay : Int → Rat)
    (hdec : ∀ d : Int, expf (FVal.mul (FVal.neg ln2) (FVal.divII d halflife)) = .q (decay d))
    (hdec0 : ∀ d : Int, 0 ≤ decay d)
    (vals : List FVal) (times : List Int) (hlen : vals.length = times.length) (rows : List (Int × Option Rat))
    (hrows : rows = (List.range vals.length).map fun i => (times.getD i 0, obsOf (vals.getD i .nan) false))
    (t : Nat) (ht1 : 0 < t) (ht : t < vals.length) (st : Ema_time_weighted_loop1St) (h : TwInv decay rows t st) :
    let st' := ema_time_weighted_loop1_step k ln2 expf vals.length (arrOf vals .nan) times.length (arrOf times 0) halflife
      vals.length st (t : Int)
    TwInv decay rows (t + 1) st' ∧ (∀ j : Int, j ≠ (t : Int) → st'.out' j = st.out' j) ∧
      st'.out' (t : Int) = optF (emaOutTimed decay (runTE decay (rows.take t)) (rows.getD t (0, none))) := by
  obtain ⟨sr, sw, so⟩ := st
  obtain ⟨hr, hw, hw0, hlast, hT⟩ := h
  simp only at hr hw hw0 hlast hT
  have hrl : rows.length = vals.length := by rw [hrows]; simp
  have htx : t < rows.length := by omega
  have hrow : rows[t] = (times.getD t 0, obsOf (vals.getD t .nan) false) := by
    subst hrows; simp
  have hprev : rows[t - 1]'(by omega) = (times.getD (t - 1) 0, obsOf (vals.getD (t - 1) .nan) false) := by
    subst hrows; simp
  have hgd : rows.getD t (0, none) = rows[t] := by
    rw [List.getD_eq_getElem?_getD, List.getElem?_eq_getElem htx]; rfl
  have hlastT := hT ht1 (by omega)
  rw [hprev] at hlastT
  intro st'
  have e1 : (1 : Int) + ((t : Int) - 1) = (t : Int) := by omega
  have e2 : normI (times.length : Int) ((t : Int) - 1) = (((t - 1 : Nat)) : Int) := by
    rw [normI_nonneg _ _ (by omega)]; omega
  have e3 : normI (vals.length : Int) ((t : Int) - 1) = (t : Int) - 1 := normI_nonneg _ _ (by omega)
  simp only at hlastT
  simp only [st', ema_time_weighted_loop1_step, e1, normI_natCast, arrOf_natCast, e2, e3, hr, hw, hdec]
  simp only [FVal.mul]
  -- the decayed state of the model
  have hdcy : decayed decay (runTE decay (rows.take t)) (times.getD t 0) =
      { runTE decay (rows.take t) with
        r := (runTE decay (rows.take t)).r * decay (times.getD t 0 - times.getD (t - 1) 0),
        w := (runTE decay (rows.take t)).w * decay (times.getD t 0 - times.getD (t - 1) 0) } := by
    simp only [decayed, hlastT]
  generalize hd : decay (times.getD t 0 - times.getD (t - 1) 0) = dd at *
  have hdd0 : 0 ≤ dd := by rw [← hd]; exact hdec0 _
  have hw0' : 0 ≤ (runTE decay (rows.take t)).w * dd := Rat.mul_nonneg hw0 hdd0
  have h1w : ¬ ((1 : Rat) + (runTE decay (rows.take t)).w * dd = 0) := by intro h; linarith
  have hcast : ((1 : Int) : Rat) = 1 := by simp
  cases hv : vals.getD t .nan with
  | nan =>
    have hxn : rows[t] = (times.getD t 0, none) := by rw [hrow, hv]; rfl
    have hisn : FVal.isNan FVal.nan = true := rfl
    simp only [hisn, if_true]
    refine ⟨⟨?_, ?_, ?_, ?_, ?_⟩, fun j hj => by simp [aset_apply, hj], ?_⟩
    · rw [runTE_snoc decay rows t htx, hxn]; simp only [emaStepTimed, hdcy]
    · rw [runTE_snoc decay rows t htx, hxn]; simp only [emaStepTimed, hdcy]
    · rw [runTE_snoc decay rows t htx, hxn]; simp only [emaStepTimed, hdcy]; exact hw0'
    · have e4 : ((t + 1 : Nat) : Int) - 1 = (t : Int) := by omega
      rw [e4]
      show aset so (t : Int) _ (t : Int) = _
      rw [aset_same, hlast, runTE_snoc decay rows t htx, hxn]; simp only [emaStepTimed, hdcy]
    · intro _ _
      simp only [Nat.add_sub_cancel]
      rw [runTE_snoc decay rows t htx, hxn]; simp only [emaStepTimed, hdcy]
    · show aset so (t : Int) _ (t : Int) = _
      rw [aset_same, hlast, hgd, hxn]; simp only [emaOutTimed, emaOut, hdcy]
  | q v =>
    have hxn : rows[t] = (times.getD t 0, some v) := by rw [hrow, hv]; rfl
    have hisq : FVal.isNan (FVal.q v) = false := rfl
    simp only [hisq, Bool.false_eq_true, if_false, FVal.add, FVal.div, FVal.ofInt, hcast, h1w]
    refine ⟨⟨?_, ?_, ?_, ?_, ?_⟩, fun j hj => by simp [aset_apply, hj], ?_⟩
    · rw [runTE_snoc decay rows t htx, hxn]; simp only [emaStepTimed, hdcy]
    · rw [runTE_snoc decay rows t htx, hxn]; simp only [emaStepTimed, hdcy]
    · rw [runTE_snoc decay rows t htx, hxn]; simp only [emaStepTimed, hdcy]
      exact Rat.add_nonneg hw0' (by decide)
    · have e4 : ((t + 1 : Nat) : Int) - 1 = (t : Int) := by omega
      rw [e4]
      show aset so (t : Int) _ (t : Int) = _
      rw [aset_same, runTE_snoc decay rows t htx, hxn]; simp only [emaStepTimed, hdcy, optF]
    · intro _ _
      simp only [Nat.add_sub_cancel]
      rw [runTE_snoc decay rows t htx, hxn]; simp only [emaStepTimed, hdcy]
    · show aset so (t : Int) _ (t : Int) = _
      rw [aset_same, hgd, hxn]; simp only [emaOutTimed, emaOut, hdcy, optF]

/-- **the ungrouped `_ema_time_weighted` is the single-series time-weighted model at every row** (a leading NaN gives
NaN, as in the grouped kernel) -/
theorem ema_time_weighted_eq (k : Kind) (ln2 : FVal) (expf : FVal → FVal) (halflife : Int) (decay : Int → Rat)
    (hdec : ∀ d : Int, expf (FVal.mul (FVal.neg ln2) (FVal.divII d halflife)) = .q (decay d))
    (hdec0 : ∀ d : Int, 0 ≤ decay d)
    (vals : List FVal) (times : List Int) (hlen : vals.length = times.length) (hne : 0 < vals.length)
    (i : Nat) (hi : i < vals.length) :
    let rows := (List.range vals.length).map fun i => (times.getD i 0, obsOf (vals.getD i .nan) false)
    let r := ema_time_weighted k ln2 expf vals.length (arrOf vals .nan) times.length (arrOf times 0) halflife
    r.2 = false ∧ r.1 (i : Int) = optF (emaOutTimed decay (runTE decay (rows.take i)) (rows.getD i (0, none))) := by
  intro rows r
  have hrl : rows.length = vals.length := by simp [rows]
  obtain ⟨v0, hv0⟩ : ∃ v0, vals.getD 0 .nan = v0 := ⟨_, rfl⟩
  have hrow0 : rows[0]'(by omega) = (times.getD 0 0, obsOf v0 false) := by simp [rows, ← hv0]
  have e0 : arrOf vals FVal.nan (normI (vals.length : Int) 0) = v0 := by
    rw [normI_nonneg _ _ (Int.le_refl 0), ← hv0]; simp [arrOf]
  have hgd0 : rows.getD 0 (0, none) = rows[0]'(by omega) := by
    rw [List.getD_eq_getElem?_getD, List.getElem?_eq_getElem (by omega)]; rfl
  have hsn : runTE decay (rows.take 1) = emaStepTimed decay eInit (rows[0]'(by omega)) := by
    have := runTE_snoc decay rows 0 (by omega)
    simpa [runTE] using this
  -- the state after row 0
  let st0 : Ema_time_weighted_loop1St :=
    ⟨if FVal.isNan v0 then .ofInt 0 else v0, if FVal.isNan v0 then .ofInt 0 else .ofInt 1,
     if FVal.isNan v0 then aset (fun _ => FVal.ofInt 0) 0 FVal.nan else aset (fun _ => FVal.ofInt 0) 0 v0⟩
  have hcell0 : st0.out' 0 = optF (emaOutTimed decay (runTE decay (rows.take 0)) (rows.getD 0 (0, none))) := by
    rw [hgd0, hrow0]
    cases v0 with
    | nan => simp [st0, FVal.isNan, runTE, eInit, emaOutTimed, emaOut, decayed, obsOf, optF]
    | q v => simp [st0, FVal.isNan, runTE, eInit, emaOutTimed, emaOut, decayed, obsOf, optF]
  have hinv0 : TwInv decay rows 1 st0 := by
    rw [hrow0] at hsn
    cases v0 with
    | nan =>
      simp only [obsOf] at hsn
      refine ⟨?_, ?_, ?_, ?_, ?_⟩ <;>
        simp [st0, FVal.isNan, hsn, emaStepTimed, decayed, eInit, FVal.ofInt, optF, hrow0]
    | q v =>
      simp only [obsOf, Bool.false_eq_true, if_false] at hsn
      refine ⟨?_, ?_, ?_, ?_, ?_⟩ <;>
        simp [st0, FVal.isNan, hsn, emaStepTimed, decayed, eInit, FVal.ofInt, optF, hrow0]
  -- the loop over rows 1 .. n-1
  have key : ∀ m : Nat, m + 1 ≤ vals.length →
      let st := ((List.range m).map (fun j : Nat => (1 : Int) + (j : Int))).foldl
        (ema_time_weighted_loop1_step k ln2 expf vals.length (arrOf vals .nan) times.length (arrOf times 0) halflife vals.length) st0
      TwInv decay rows (m + 1) st ∧ ∀ j, j < m + 1 →
        st.out' (j : Int) = optF (emaOutTimed decay (runTE decay (rows.take j)) (rows.getD j (0, none))) := by
    intro m
    induction m with
    | zero =>
      intro _ st
      refine ⟨hinv0, fun j hj => ?_⟩
      have : j = 0 := by omega
      subst this
      exact hcell0
    | succ m ih =>
      intro hm st
      obtain ⟨hinv, hcells⟩ := ih (by omega)
      have hstep := tw_step k ln2 expf halflife decay hdec hdec0 vals times hlen rows rfl (m + 1) (by omega) (by omega) _ hinv
      obtain ⟨hinv', hother, hcell⟩ := hstep
      have ecast : (1 : Int) + (m : Int) = ((m + 1 : Nat) : Int) := by omega
      simp only [st, List.range_succ, List.map_append, List.foldl_append, List.map_cons, List.map_nil, List.foldl_cons,
        List.foldl_nil, ecast]
      refine ⟨hinv', fun j hj => ?_⟩
      by_cases e : j = m + 1
      · subst e; exact hcell
      · rw [hother (j : Int) (by omega)]
        exact hcells j (by omega)
  obtain ⟨_, hcells⟩ := key (vals.length - 1) (by omega)
  refine ⟨by simp [r, ema_time_weighted], ?_⟩
  have hrange : rangeI2 (1 : Int) (vals.length : Int) = (List.range (vals.length - 1)).map (fun j : Nat => (1 : Int) + (j : Int)) := by
    unfold rangeI2
    have : ((vals.length : Int) - 1).toNat = vals.length - 1 := by omega
    rw [this]
    apply List.map_congr_left
    intro j _
    simp
  have e0' : arrOf vals FVal.nan 0 = v0 := by rw [← hv0]; simp [arrOf]
  simp only [r, ema_time_weighted, hrange, normI_nonneg _ _ (Int.le_refl 0), e0']
  have hcell := hcells i (by omega)
  cases v0 with
  | nan => simpa [st0, FVal.isNan] using hcell
  | q v => simpa [st0, FVal.isNan] using hcell

end GV.LoopBridge
