import GroupbyVerif.LoopBridge.Cumulative
import GroupbyVerif.Model.Rolling

/-!
# Bridge: the translated rolling kernels are the ring-buffer models of `Model/Rolling.lean`

`_rolling_shift_or_diff_1d` and `_rolling_sum_or_mean_1d` keep, per group, one row of an `(ngroups, window)` buffer
matrix, a write position and counters; the models keep one record `RS` per group.  `RingRel` ties them at every
non-negative code.  The output cell of a row holds the model's `RCell` rendered by `cellVal` (a null cell is the
kernel's `null_value`; the mean's quotient goes through the uninterpreted division `divf`).
-/

namespace GV.LoopBridge
open GV GV.Generated.Loops

/-- row `g` of an `(·, w)` value matrix as a list -/
def rowV (a : Int → Int → Val) (g : Int) (w : Nat) : List Val := (List.range w).map fun (j : Nat) => a g (j : Int)

@[simp] theorem rowV_length (a : Int → Int → Val) (g : Int) (w : Nat) : (rowV a g w).length = w := by simp [rowV]

theorem rowV_getD (a : Int → Int → Val) (g : Int) (w : Nat) (j : Nat) (hj : j < w) (d : Val) :
    (rowV a g w).getD j d = a g (j : Int) := by
  simp [rowV, List.getD_eq_getElem?_getD, hj]

theorem rowV_aset2_same (a : Int → Int → Val) (g : Int) (w : Nat) (j : Nat) (hj : j < w) (x : Val) :
    rowV (aset2 a g (j : Int) x) g w = (rowV a g w).set j x := by
  apply List.ext_getElem
  · simp [rowV]
  · intro p h1 h2
    simp only [rowV, List.getElem_map, List.getElem_range, aset2, true_and, List.getElem_set]
    by_cases e : p = j
    · subst e; simp
    · have e' : ¬ j = p := fun h => e h.symm
      have : ¬ ((p : Int) = (j : Int)) := by omega
      simp [this, e']

theorem rowV_aset2_other (a : Int → Int → Val) (g g' : Int) (w : Nat) (j : Int) (x : Val) (h : g' ≠ g) :
    rowV (aset2 a g j x) g' w = rowV a g' w := by
  simp [rowV, aset2, h]

/-- rendering of a model cell in the kernel's output array -/
def cellVal (divf : Val → Int → Val) (nullv : Val) : RCell → Val
  | .null => nullv
  | .num n => .num n
  | .ratio s c => divf (.num s) c

/-- the kernel's output cell for a model output: an untouched cell keeps `null_value` -/
def cellAt (divf : Val → Int → Val) (nullv : Val) (l : List (Option RCell)) (j : Nat) : Val :=
  match l[j]? with
  | some (some c) => cellVal divf nullv c
  | _ => nullv

/-- generated ring arrays vs the model's per-group record (buffer row, write position, rows seen) -/
def RingRel (w : Nat) (bufs : Int → Int → Val) (posA seenA : Int → Int) (m : Int → RS) : Prop :=
  ∀ g : Int, 0 ≤ g → (m g).buf = rowV bufs g w ∧ ((m g).pos : Int) = posA g ∧ (m g).pos < w ∧
    ((m g).nSeen : Int) = seenA g

theorem fmod_succ_cast (p w : Nat) (hw : 0 < w) : Int.fmod ((p : Int) + 1) (w : Int) = (((p + 1) % w : Nat) : Int) := by
  rw [Int.fmod_eq_emod_of_nonneg _ (by omega), Int.natCast_emod]
  simp

/-! ### shift / diff -/

structure ShiftInv (nullv : Val) (w : Nat) (t : Nat) (st : Rolling_shift_or_diff_loop2St) (m : Int → RS) : Prop where
  hi : st.i = (t : Int) - 1
  hun : ∀ j : Int, (t : Int) ≤ j → st.out' j = nullv
  hnan : ∀ g c : Int, st.group_buffers g c = .nan → nullv = .nan
  hring : RingRel w st.group_buffers st.group_buffer_pos st.group_counts m

theorem shift_step (k : Kind) (op : RollOp) (hop : op = .shift ∨ op = .diff) (nullv : Val) (w : Nat) (hw : 0 < w)
    (minp : Nat) (gk : Int → Int) (masked : Bool) (mk : Int → Bool) (ng ml gkl ol : Int) (t : Nat)
    (st : Rolling_shift_or_diff_loop2St) (m : Int → RS) (r : CRow)
    (hcode : gk (t : Int) = r.code) (hsel : (masked && !mk (t : Int)) = !r.sel)
    (hv : r.val = .nan → nullv = .nan) (h : ShiftInv nullv w t st m) :
    let st' := rolling_shift_or_diff_loop2_step k gkl gk w ml masked mk (decide (op = .shift)) masked ng ol ng w ng st r.val
    let m' := if r.code < 0 || !r.sel then m else upd m r.code (rollStep k op w (m r.code) r.val)
    ShiftInv nullv w (t + 1) st' m' ∧ (∀ j : Int, j < t → st'.out' j = st.out' j) ∧
      st'.out' (t : Int) = (if r.code < 0 || !r.sel then nullv
        else cellVal (fun a _ => a) nullv (rollOut k op w minp (m r.code) (rollStep k op w (m r.code) r.val) r.val)) := by
  obtain ⟨si, sc, so, sb, sp⟩ := st
  obtain ⟨hi, hun, hnan, hring⟩ := h
  simp only at hi hun hnan hring
  subst hi
  intro st' m'
  have e1 : (t : Int) - 1 + 1 = (t : Int) := by omega
  have hstep : rollStep k op w = rstep k w := by funext s v; rcases hop with rfl | rfl <;> rfl
  simp only [st', m', rolling_shift_or_diff_loop2_step, e1, normI_natCast, hcode, hsel, hstep]
  by_cases hk : r.code < 0
  · simp only [hk, decide_true, if_true, Bool.true_or]
    exact ⟨⟨by simp, fun j hj => hun j (by omega), hnan, hring⟩, by first | trivial | (intro _ _; first | trivial | rfl), hun _ (by omega)⟩
  · have hk0 : 0 ≤ r.code := by omega
    simp only [hk, decide_false, Bool.false_eq_true, if_false, Bool.false_or, normI_nonneg _ _ hk0]
    by_cases hs : r.sel = true
    · simp only [hs, Bool.not_true, Bool.false_eq_true, if_false]
      obtain ⟨kb, kp, kpw, kn⟩ := hring _ hk0
      have hpos0 : (0 : Int) ≤ sp r.code := by omega
      rw [normI_nonneg _ _ hpos0]
      have hold : (m r.code).buf.getD (m r.code).pos (nullValue k) = sb r.code (sp r.code) := by
        rw [kb, rowV_getD _ _ _ _ kpw, kp]
      have hfull : (decide (sc r.code ≥ (w : Int))) = decide ((m r.code).nSeen ≥ w) := by
        rw [← kn]; simp
      -- the new ring state of the group
      have hring' : RingRel w (aset2 sb r.code (sp r.code) r.val)
          (aset sp r.code (Int.fmod (sp r.code + 1) (w : Int)))
          (if decide (sc r.code ≥ (w : Int)) = true then sc else aset sc r.code (sc r.code + 1))
          (upd m r.code (rstep k w (m r.code) r.val)) := by
        intro g hg
        obtain ⟨gb, gp, gpw, gn⟩ := hring g hg
        by_cases e : g = r.code
        · subst e
          simp only [upd, if_true, rstep, aset_apply]
          refine ⟨?_, ?_, Nat.mod_lt _ hw, ?_⟩
          · rw [gb, ← gp, rowV_aset2_same _ _ _ _ gpw]
          · rw [← gp, fmod_succ_cast _ _ hw]
          · rw [hfull]
            by_cases hf : (m r.code).nSeen ≥ w
            · simp [hf, gn]
            · simp only [hf, decide_false, Bool.false_eq_true, if_false, aset_apply, if_true]
              omega
        · simp only [upd, e, if_false, aset_apply]
          refine ⟨by rw [rowV_aset2_other _ _ _ _ _ _ e]; exact gb, gp, gpw, ?_⟩
          by_cases hf : sc r.code ≥ (w : Int) <;> simp [hf, aset_apply, e, gn]
      have hnan' : ∀ g c : Int, aset2 sb r.code (sp r.code) r.val g c = .nan → nullv = .nan := by
        intro g c hc
        simp only [aset2] at hc
        split at hc
        · exact hv hc
        · exact hnan g c hc
      by_cases hf : sc r.code ≥ (w : Int)
      · -- the window is full: the cell is written
        have hfm : (m r.code).nSeen ≥ w := by omega
        simp only [hf, decide_true, if_true] at hring' ⊢
        rcases hop with rfl | rfl
        · -- shift
          simp only [decide_true, if_true, aset_apply]
          refine ⟨⟨by simp, fun j hj => ?_, hnan', hring'⟩, fun j hj => ?_, ?_⟩
          · have : ¬ j = (t : Int) := by omega
            simp only [aset_apply, this, if_false]; exact hun j (by omega)
          · have : ¬ j = (t : Int) := by omega
            simp only [aset_apply, this, if_false]
          · simp only [aset_apply, if_true, rollOut, hfm, hold]
            cases hb : sb r.code (sp r.code) with
            | num n => simp [cellVal]
            | nan => simp [cellVal, hnan _ _ hb]
        · -- diff
          simp only [show (decide (RollOp.diff = RollOp.shift)) = false from by decide, Bool.false_eq_true, if_false]
          by_cases hnn : (isNull k r.val || isNull k (sb r.code (sp r.code))) = true
          · simp only [hnn, Bool.not_true, Bool.false_eq_true, if_false]
            refine ⟨⟨by simp, fun j hj => hun j (by omega), hnan', hring'⟩, by first | trivial | (intro _ _; first | trivial | rfl), ?_⟩
            rw [hun _ (by omega)]
            simp only [rollOut, hfm, if_true, hold, hnn, cellVal]
          · simp only [hnn, Bool.not_false, if_true, aset_apply]
            refine ⟨⟨by simp, fun j hj => ?_, hnan', hring'⟩, fun j hj => ?_, ?_⟩
            · have : ¬ j = (t : Int) := by omega
              simp only [aset_apply, this, if_false]; exact hun j (by omega)
            · have : ¬ j = (t : Int) := by omega
              simp only [aset_apply, this, if_false]
            · simp only [aset_apply, if_true, rollOut, hfm, hold, hnn, Bool.false_eq_true, if_false, ge_iff_le]
              cases hb : Val.sub r.val (sb r.code (sp r.code)) with
              | num n => simp [cellVal]
              | nan =>
                have : nullv = .nan := by
                  cases hrv : r.val with
                  | nan => exact hv hrv
                  | num a =>
                    cases hbv : sb r.code (sp r.code) with
                    | nan => exact hnan _ _ hbv
                    | num b => rw [hrv, hbv] at hb; simp [Val.sub] at hb
                simp [cellVal, this]
      · -- the window is not yet full: nothing is written, the row is counted
        have hfm : ¬ (m r.code).nSeen ≥ w := by omega
        simp only [hf, decide_false, Bool.false_eq_true, if_false] at hring' ⊢
        refine ⟨⟨by simp, fun j hj => hun j (by omega), hnan', hring'⟩, by first | trivial | (intro _ _; first | trivial | rfl), ?_⟩
        rw [hun _ (by omega)]
        rcases hop with rfl | rfl <;> simp [rollOut, hfm, cellVal]
    · have hs' : r.sel = false := by cases h' : r.sel <;> simp_all
      simp only [hs', Bool.not_false, if_true]
      exact ⟨⟨by simp, fun j hj => hun j (by omega), hnan, hring⟩, by first | trivial | (intro _ _; first | trivial | rfl), hun _ (by omega)⟩

theorem rollGo_length (k : Kind) (op : RollOp) (w minp : Nat) (m : Int → RS) (rows : List CRow) :
    (rollGo k op w minp m rows).length = rows.length := by
  induction rows generalizing m with
  | nil => simp [rollGo]
  | cons r rs ih =>
    simp only [rollGo]
    split <;> simp [ih]

theorem shift_loop (k : Kind) (op : RollOp) (hop : op = .shift ∨ op = .diff) (nullv : Val) (w : Nat) (hw : 0 < w)
    (minp : Nat) (gk : Int → Int) (masked : Bool) (mk : Int → Bool) (ng ml gkl ol : Int) :
    ∀ (rest : List CRow) (t : Nat) (st : Rolling_shift_or_diff_loop2St) (m : Int → RS),
      (∀ j (hj : j < rest.length), gk ((t + j : Nat) : Int) = rest[j].code ∧
        (masked && !mk ((t + j : Nat) : Int)) = !rest[j].sel ∧ (rest[j].val = .nan → nullv = .nan)) →
      ShiftInv nullv w t st m →
      let fin := (rest.map (·.val)).foldl
        (rolling_shift_or_diff_loop2_step k gkl gk w ml masked mk (decide (op = .shift)) masked ng ol ng w ng) st
      (∀ j : Int, j < t → fin.out' j = st.out' j) ∧
      (∀ j, j < rest.length → fin.out' ((t + j : Nat) : Int) = cellAt (fun a _ => a) nullv (rollGo k op w minp m rest) j) := by
  intro rest
  induction rest with
  | nil => intro t st m _ _; simp
  | cons r rs ih =>
    intro t st m harr hinv fin
    have h0 := harr 0 (by simp)
    simp only [Nat.add_zero, List.getElem_cons_zero] at h0
    have hstep := shift_step k op hop nullv w hw minp gk masked mk ng ml gkl ol t st m r h0.1 h0.2.1 h0.2.2 hinv
    obtain ⟨hinv', hold, hcell⟩ := hstep
    have harr' : ∀ j (hj : j < rs.length), gk ((t + 1 + j : Nat) : Int) = rs[j].code ∧
        (masked && !mk ((t + 1 + j : Nat) : Int)) = !rs[j].sel ∧ (rs[j].val = .nan → nullv = .nan) := by
      intro j hj
      have := harr (j + 1) (by simp; omega)
      have e : t + (j + 1) = t + 1 + j := by omega
      simpa [e] using this
    have hrec := ih (t + 1) _ _ harr' hinv'
    obtain ⟨r1, r2⟩ := hrec
    simp only [fin, List.map_cons, List.foldl_cons]
    refine ⟨fun j hj => ?_, fun j hj => ?_⟩
    · rw [r1 j (by omega)]; exact hold j hj
    · cases j with
      | zero =>
        simp only [Nat.add_zero]
        rw [r1 _ (by omega), hcell]
        simp only [rollGo, cellAt]
        by_cases hc : (decide (r.code < 0) || !r.sel) = true <;> simp [hc]
      | succ j =>
        have e : t + (j + 1) = t + 1 + j := by omega
        rw [e, r2 j (by simpa using hj)]
        simp only [rollGo, cellAt]
        by_cases hc : (decide (r.code < 0) || !r.sel) = true <;> simp [hc]

def sh2of1 (s : Rolling_shift_or_diff_loop1St) : Rolling_shift_or_diff_loop2St :=
  ⟨s.i, s.group_counts, s.out', s.group_buffers, s.group_buffer_pos⟩
def sh1of2 (s : Rolling_shift_or_diff_loop2St) : Rolling_shift_or_diff_loop1St :=
  ⟨s.i, s.group_buffers, s.group_buffer_pos, s.group_counts, s.out'⟩

theorem shift_chunks_fold (k : Kind) (gkl : Int) (gk : Int → Int) (w ml : Int) (ms : Bool) (mk : Int → Bool) (ws ms' : Bool)
    (a b c d e : Int) (chunks : List (List Val)) (st : Rolling_shift_or_diff_loop1St) :
    chunks.foldl (rolling_shift_or_diff_loop1_step k gkl gk w ml ms mk ws ms' a b c d e) st =
      sh1of2 (chunks.flatten.foldl (rolling_shift_or_diff_loop2_step k gkl gk w ml ms mk ws ms' d e a b c) (sh2of1 st)) := by
  induction chunks generalizing st with
  | nil => rfl
  | cons c cs ih =>
    simp only [List.foldl_cons, List.flatten_cons, List.foldl_append]
    rw [ih]
    rfl

/-- **`_rolling_shift_or_diff_1d` is the ring-buffer model `rolling k shift|diff`**: every output cell holds the
model's cell (`null_value` where the model says null or writes nothing) -/
theorem rolling_shift_or_diff_eq (k : Kind) (op : RollOp) (hop : op = .shift ∨ op = .diff) (w : Nat) (hw : 0 < w)
    (minp : Nat) (codes : List Int) (chunks : List (List Val)) (msk : List Bool) (masked : Bool) (ng ml : Int)
    (hlen : codes.length = chunks.flatten.length)
    (hnan : ∀ v ∈ chunks.flatten, v = .nan → nullValue k = .nan) :
    let rows := cumRows codes chunks.flatten masked msk
    let r := rolling_shift_or_diff k codes.length (arrOf codes 0) chunks ng w masked ml (arrOf msk true) (nullValue k)
      (decide (op = .shift))
    r.2 = false ∧ ∀ j, j < codes.length →
      r.1 (j : Int) = cellAt (fun a _ => a) (nullValue k) (rolling k op w minp rows) j := by
  intro rows r
  have hvals : chunks.flatten = rows.map (·.val) := by
    simp only [rows, cumRows, List.map_map]
    have := list_eq_map_range chunks.flatten Val.nan
    rw [← hlen] at this
    exact this
  have hrl : rows.length = codes.length := by simp [rows, cumRows]
  have h0 : ShiftInv (nullValue k) w 0
      (sh2of1 ⟨-1, fun _ _ => nullValue k, fun _ => 0, fun _ => 0, fun _ => nullValue k⟩) (fun _ => rinit k w) := by
    refine ⟨by simp [sh2of1], fun _ _ => rfl, fun _ _ h => h, fun g _ => ?_⟩
    refine ⟨?_, by simp [sh2of1, rinit], by simp [rinit]; exact hw, by simp [sh2of1, rinit]⟩
    apply List.ext_getElem <;> simp [rinit, rowV, sh2of1]
  have hl := shift_loop k op hop (nullValue k) w hw minp (arrOf codes 0) masked (arrOf msk true) ng ml codes.length
    codes.length rows 0 _ _
    (by
      intro j hj
      have hj' : j < codes.length := by omega
      have hmem : rows[j].val ∈ chunks.flatten := by
        rw [hvals]; exact List.mem_map.mpr ⟨rows[j], List.getElem_mem hj, rfl⟩
      refine ⟨?_, ?_, hnan _ hmem⟩ <;> simp [rows, cumRows, hj'])
    h0
  obtain ⟨_, l2⟩ := hl
  refine ⟨by simp [r, rolling_shift_or_diff], fun j hj => ?_⟩
  simp only [r, rolling_shift_or_diff, shift_chunks_fold, hvals, sh1of2, rolling]
  have := l2 j (by omega)
  simpa using this

/-! ### sum / mean -/

def NumOrNull (k : Kind) (v : Val) : Prop := isNull k v = false → ∃ x, v = .num x

theorem sub_num (s : Int) (v : Val) (h : ∃ x, v = .num x) : Val.sub (.num s) v = .num (s - valInt v) := by
  obtain ⟨x, rfl⟩ := h; rfl

theorem add_num (s : Int) (v : Val) (h : ∃ x, v = .num x) : Val.add (.num s) v = .num (s + valInt v) := by
  obtain ⟨x, rfl⟩ := h; rfl

structure SumInv (k : Kind) (nullv : Val) (w : Nat) (t : Nat) (st : Rolling_sum_or_mean_loop2St) (m : Int → RS) : Prop where
  hi : st.i = (t : Int) - 1
  hun : ∀ j : Int, (t : Int) ≤ j → st.out' j = nullv
  hnum : ∀ g c : Int, NumOrNull k (st.group_buffers g c)
  hring : RingRel w st.group_buffers st.group_positions st.group_n_seen m
  hsum : ∀ g : Int, 0 ≤ g → st.group_sums g = .num (m g).sum ∧ st.group_non_null g = (m g).nn

theorem sum_step (k : Kind) (divf : Val → Int → Val) (op : RollOp) (hop : op = .sum ∨ op = .mean) (nullv : Val) (w : Nat)
    (hw : 0 < w) (minp : Nat) (gk : Int → Int) (masked : Bool) (mk : Int → Bool) (ng ml gkl ol : Int) (t : Nat)
    (st : Rolling_sum_or_mean_loop2St) (m : Int → RS) (r : CRow)
    (hcode : gk (t : Int) = r.code) (hsel : (masked && !mk (t : Int)) = !r.sel)
    (hv : NumOrNull k r.val) (h : SumInv k nullv w t st m) :
    let st' := rolling_sum_or_mean_loop2_step k divf gkl gk w minp ml masked mk (decide (op = .mean)) masked ng ng ng w ng ng ol
      st r.val
    let m' := if r.code < 0 || !r.sel then m else upd m r.code (rollStep k op w (m r.code) r.val)
    SumInv k nullv w (t + 1) st' m' ∧ (∀ j : Int, j < t → st'.out' j = st.out' j) ∧
      st'.out' (t : Int) = (if r.code < 0 || !r.sel then nullv
        else cellVal divf nullv (rollOut k op w minp (m r.code) (rollStep k op w (m r.code) r.val) r.val)) := by
  obtain ⟨si, ss, sn, sb, sp, sc, so⟩ := st
  obtain ⟨hi, hun, hnum, hring, hsum⟩ := h
  simp only at hi hun hnum hring hsum
  subst hi
  intro st' m'
  have e1 : (t : Int) - 1 + 1 = (t : Int) := by omega
  have hstep : rollStep k op w = rstep k w := by funext s v; rcases hop with rfl | rfl <;> rfl
  simp only [st', m', rolling_sum_or_mean_loop2_step, e1, normI_natCast, hcode, hsel, hstep]
  by_cases hk : r.code < 0
  · simp only [hk, decide_true, if_true, Bool.true_or]
    exact ⟨⟨by simp, fun j hj => hun j (by omega), hnum, hring, hsum⟩, by first | trivial | (intro _ _; first | trivial | rfl),
      hun _ (by omega)⟩
  · have hk0 : 0 ≤ r.code := by omega
    simp only [hk, decide_false, Bool.false_eq_true, if_false, Bool.false_or, normI_nonneg _ _ hk0]
    by_cases hs : r.sel = true
    · simp only [hs, Bool.not_true, Bool.false_eq_true, if_false]
      obtain ⟨kb, kp, kpw, kn⟩ := hring _ hk0
      obtain ⟨ksum, knn⟩ := hsum _ hk0
      have hpos0 : (0 : Int) ≤ sp r.code := by omega
      rw [normI_nonneg _ _ hpos0]
      have hold : (m r.code).buf.getD (m r.code).pos (nullValue k) = sb r.code (sp r.code) := by
        rw [kb, rowV_getD _ _ _ _ kpw, kp]
      have hfull : (decide (sc r.code ≥ (w : Int))) = decide ((m r.code).nSeen ≥ w) := by
        rw [← kn]; simp
      have holdnum := hnum r.code (sp r.code)
      simp only [hfull]
      generalize hold' : sb r.code (sp r.code) = old at *
      generalize hfl : decide ((m r.code).nSeen ≥ w) = full at *
      have hnum' : ∀ g c : Int, NumOrNull k (aset2 sb r.code (sp r.code) r.val g c) := by
        intro g c
        simp only [aset2]
        split
        · exact hv
        · exact hnum g c
      have hring' : RingRel w (aset2 sb r.code (sp r.code) r.val)
          (aset sp r.code (Int.fmod (sp r.code + 1) (w : Int)))
          (if (!full) = true then aset sc r.code (sc r.code + 1) else sc)
          (upd m r.code (rstep k w (m r.code) r.val)) := by
        intro g hg
        obtain ⟨gb, gp, gpw, gn⟩ := hring g hg
        by_cases e : g = r.code
        · subst e
          simp only [upd, if_true, rstep, aset_apply]
          refine ⟨?_, ?_, Nat.mod_lt _ hw, ?_⟩
          · rw [gb, ← gp, rowV_aset2_same _ _ _ _ gpw]
          · rw [← gp, fmod_succ_cast _ _ hw]
          · rw [hfl]
            cases full
            · simp only [Bool.not_false, if_true, aset_apply, Bool.false_eq_true, if_false]; omega
            · simp [gn]
        · simp only [upd, e, if_false, aset_apply]
          refine ⟨by rw [rowV_aset2_other _ _ _ _ _ _ e]; exact gb, gp, gpw, ?_⟩
          cases full <;> simp [aset_apply, e, gn]
      -- the model's new sum / count of the row's group
      have hmsum : (rstep k w (m r.code) r.val).sum =
          (if isNull k r.val then (if full && !isNull k old then (m r.code).sum - valInt old else (m r.code).sum)
           else (if full && !isNull k old then (m r.code).sum - valInt old else (m r.code).sum) + valInt r.val) := by
        simp only [rstep, hold, hfl]
      have hmnn : (rstep k w (m r.code) r.val).nn =
          (if isNull k r.val then (if full && !isNull k old then (m r.code).nn - 1 else (m r.code).nn)
           else (if full && !isNull k old then (m r.code).nn - 1 else (m r.code).nn) + 1) := by
        simp only [rstep, hold, hfl]
      have hvnum : isNull k r.val = false → ∃ x, r.val = .num x := hv
      cases full <;> cases hon : isNull k old <;> cases hvn : isNull k r.val <;>
        simp only [hon, hvn, Bool.not_true, Bool.not_false, Bool.false_eq_true, if_false, if_true, Bool.and_true,
          Bool.and_false, Bool.true_and, Bool.false_and] at hring' hmsum hmnn ⊢
      all_goals
        have hOn : isNull k old = false → ∃ x, old = .num x := holdnum
        refine (fun hinv' => ⟨hinv', ?_, ?_⟩) ⟨by simp, ?_, hnum', hring', ?_⟩
      -- cells before / after the row are untouched
      all_goals try (
        intro j hj
        have hjt : ¬ j = (t : Int) := by omega
        (repeat' split) <;> simp only [aset_apply, hjt, if_false] <;> first | rfl | exact hun j (by omega))
      -- running sum and non-null count per group
      all_goals try (
        intro g hg
        dsimp only
        obtain ⟨gs, gn⟩ := hsum g hg
        by_cases e : g = r.code
        · subst e
          simp only [upd, if_true, hmsum, hmnn, aset_apply, gs, gn]
          have hO' : isNull k old = true ∨ ∃ x, old = .num x := by
            cases h : isNull k old
            · exact Or.inr (hOn h)
            · exact Or.inl rfl
          have hV' : isNull k r.val = true ∨ ∃ y, r.val = .num y := by
            cases h : isNull k r.val
            · exact Or.inr (hvnum h)
            · exact Or.inl rfl
          rcases hO' with ho | ⟨x, rfl⟩ <;> rcases hV' with hvv | ⟨y, hy⟩ <;>
            (try rw [hy]) <;> simp_all [Val.add, Val.sub, valInt]
        · simp only [upd, e, if_false, aset_apply]
          exact ⟨gs, gn⟩)
      -- the output cell of the row
      all_goals try (
        have h := hinv'.hsum r.code hk0
        dsimp only at h
        simp only [upd, if_true] at h
        obtain ⟨h1, h2⟩ := h
        simp only [h1, h2]
        generalize rstep k w (m r.code) r.val = s'
        have hu := hun (t : Int) (by omega)
        rcases hop with rfl | rfl
        · simp only [show decide (RollOp.sum = RollOp.mean) = false from by decide, Bool.false_eq_true, if_false, rollOut]
          by_cases hge : s'.nn ≥ (minp : Int) <;> simp [hge, cellVal, aset_apply, hu]
        · simp only [decide_true, if_true, rollOut]
          by_cases hge : s'.nn ≥ (minp : Int) <;> by_cases hp : s'.nn > 0 <;> simp [hge, hp, cellVal, aset_apply, hu])
    · have hs' : r.sel = false := by cases h' : r.sel <;> simp_all
      simp only [hs', Bool.not_false, if_true]
      exact ⟨⟨by simp, fun j hj => hun j (by omega), hnum, hring, hsum⟩, by first | trivial | (intro _ _; first | trivial | rfl),
        hun _ (by omega)⟩

theorem sum_loop (k : Kind) (divf : Val → Int → Val) (op : RollOp) (hop : op = .sum ∨ op = .mean) (nullv : Val) (w : Nat)
    (hw : 0 < w) (minp : Nat) (gk : Int → Int) (masked : Bool) (mk : Int → Bool) (ng ml gkl ol : Int) :
    ∀ (rest : List CRow) (t : Nat) (st : Rolling_sum_or_mean_loop2St) (m : Int → RS),
      (∀ j (hj : j < rest.length), gk ((t + j : Nat) : Int) = rest[j].code ∧
        (masked && !mk ((t + j : Nat) : Int)) = !rest[j].sel ∧ NumOrNull k rest[j].val) →
      SumInv k nullv w t st m →
      let fin := (rest.map (·.val)).foldl
        (rolling_sum_or_mean_loop2_step k divf gkl gk w minp ml masked mk (decide (op = .mean)) masked ng ng ng w ng ng ol) st
      (∀ j : Int, j < t → fin.out' j = st.out' j) ∧
      (∀ j, j < rest.length → fin.out' ((t + j : Nat) : Int) = cellAt divf nullv (rollGo k op w minp m rest) j) := by
  intro rest
  induction rest with
  | nil => intro t st m _ _; simp
  | cons r rs ih =>
    intro t st m harr hinv fin
    have h0 := harr 0 (by simp)
    simp only [Nat.add_zero, List.getElem_cons_zero] at h0
    have hstep := sum_step k divf op hop nullv w hw minp gk masked mk ng ml gkl ol t st m r h0.1 h0.2.1 h0.2.2 hinv
    obtain ⟨hinv', hold, hcell⟩ := hstep
    have harr' : ∀ j (hj : j < rs.length), gk ((t + 1 + j : Nat) : Int) = rs[j].code ∧
        (masked && !mk ((t + 1 + j : Nat) : Int)) = !rs[j].sel ∧ NumOrNull k rs[j].val := by
      intro j hj
      have := harr (j + 1) (by simp; omega)
      have e : t + (j + 1) = t + 1 + j := by omega
      simpa [e] using this
    have hrec := ih (t + 1) _ _ harr' hinv'
    obtain ⟨r1, r2⟩ := hrec
    simp only [fin, List.map_cons, List.foldl_cons]
    refine ⟨fun j hj => ?_, fun j hj => ?_⟩
    · rw [r1 j (by omega)]; exact hold j hj
    · cases j with
      | zero =>
        simp only [Nat.add_zero]
        rw [r1 _ (by omega), hcell]
        simp only [rollGo, cellAt]
        by_cases hc : (decide (r.code < 0) || !r.sel) = true <;> simp [hc]
      | succ j =>
        have e : t + (j + 1) = t + 1 + j := by omega
        rw [e, r2 j (by simpa using hj)]
        simp only [rollGo, cellAt]
        by_cases hc : (decide (r.code < 0) || !r.sel) = true <;> simp [hc]

def su2of1 (s : Rolling_sum_or_mean_loop1St) : Rolling_sum_or_mean_loop2St :=
  ⟨s.i, s.group_sums, s.group_non_null, s.group_buffers, s.group_positions, s.group_n_seen, s.out'⟩
def su1of2 (s : Rolling_sum_or_mean_loop2St) : Rolling_sum_or_mean_loop1St :=
  ⟨s.i, s.group_buffers, s.group_positions, s.group_non_null, s.group_sums, s.group_n_seen, s.out'⟩

theorem sum_chunks_fold (k : Kind) (divf : Val → Int → Val) (gkl : Int) (gk : Int → Int) (w mp ml : Int) (ms : Bool)
    (mk : Int → Bool) (wm ms' : Bool) (b1 b2 pl nl sl sel ol : Int) (chunks : List (List Val))
    (st : Rolling_sum_or_mean_loop1St) :
    chunks.foldl (rolling_sum_or_mean_loop1_step k divf gkl gk w mp ml ms mk wm ms' b1 b2 pl nl sl sel ol) st =
      su1of2 (chunks.flatten.foldl (rolling_sum_or_mean_loop2_step k divf gkl gk w mp ml ms mk wm ms' sl nl b1 b2 pl sel ol)
        (su2of1 st)) := by
  induction chunks generalizing st with
  | nil => rfl
  | cons c cs ih =>
    simp only [List.foldl_cons, List.flatten_cons, List.foldl_append]
    rw [ih]
    rfl

/-- **`_rolling_sum_or_mean_1d` is the ring-buffer model `rolling k sum|mean`**: with `min_periods` given or defaulted to
the window, for well-formed values (only float arrays hold NaN), every output cell holds the model's cell: the running
window sum, or the quotient `divf sum count` for the mean, `null_value` where the model says null or writes nothing -/
theorem rolling_sum_or_mean_eq (k : Kind) (divf : Val → Int → Val) (op : RollOp) (hop : op = .sum ∨ op = .mean)
    (w : Nat) (hw : 0 < w) (minp : Option Nat) (codes : List Int) (chunks : List (List Val)) (msk : List Bool)
    (masked : Bool) (ng ml : Int) (nullv : Val)
    (hlen : codes.length = chunks.flatten.length)
    (hwf : ∀ v ∈ chunks.flatten, NumOrNull k v) (hnv : NumOrNull k nullv) (hnull : nullv = nullValue k) :
    let rows := cumRows codes chunks.flatten masked msk
    let r := rolling_sum_or_mean k divf codes.length (arrOf codes 0) chunks ng w minp.isSome (minp.getD 0) masked ml
      (arrOf msk true) nullv (decide (op = .mean))
    r.2 = false ∧ ∀ j, j < codes.length →
      r.1 (j : Int) = cellAt divf nullv (rolling k op w (minp.getD w) rows) j := by
  intro rows r
  have hvals : chunks.flatten = rows.map (·.val) := by
    simp only [rows, cumRows, List.map_map]
    have := list_eq_map_range chunks.flatten Val.nan
    rw [← hlen] at this
    exact this
  have hrl : rows.length = codes.length := by simp [rows, cumRows]
  have h0 : SumInv k nullv w 0
      (su2of1 ⟨-1, fun _ _ => nullv, fun _ => 0, fun _ => 0, fun _ => .num 0, fun _ => 0, fun _ => nullv⟩)
      (fun _ => rinit k w) := by
    refine ⟨by simp [su2of1], fun _ _ => rfl, fun _ _ => hnv, fun g _ => ?_, fun g _ => by simp [su2of1, rinit]⟩
    refine ⟨?_, by simp [su2of1, rinit], by simp [rinit]; exact hw, by simp [su2of1, rinit]⟩
    apply List.ext_getElem <;> simp [rinit, rowV, su2of1, hnull]
  have hmp : (if (!minp.isSome) = true then (w : Int) else ((minp.getD 0 : Nat) : Int)) = ((minp.getD w : Nat) : Int) := by
    cases minp <;> simp
  have hl := sum_loop k divf op hop nullv w hw (minp.getD w) (arrOf codes 0) masked (arrOf msk true) ng ml codes.length
    codes.length rows 0 _ _
    (by
      intro j hj
      have hj' : j < codes.length := by omega
      have hmem : rows[j].val ∈ chunks.flatten := by
        rw [hvals]; exact List.mem_map.mpr ⟨rows[j], List.getElem_mem hj, rfl⟩
      refine ⟨?_, ?_, hwf _ hmem⟩ <;> simp [rows, cumRows, hj'])
    h0
  obtain ⟨_, l2⟩ := hl
  refine ⟨by simp [r, rolling_sum_or_mean], fun j hj => ?_⟩
  simp only [r, rolling_sum_or_mean, sum_chunks_fold, hvals, su1of2, rolling, hmp]
  have := l2 j (by omega)
  simpa using this

end GV.LoopBridge
