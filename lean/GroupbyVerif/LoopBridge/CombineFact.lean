import GroupbyVerif.LoopBridge.Basic
import GroupbyVerif.Generated.Loops
import GroupbyVerif.Lemmas.Factorize

/-!
# Bridge: the translated `_combine_factorizations` (array tracker) factorizes the mixed-radix keys by first appearance

`_combine_factorizations(codes, code_weights, code_tracker)` walks the rows of the 2-d array of per-key codes,
computes the mixed-radix key of each row with `_weight_code_sum`, and numbers the keys in order of first appearance
through the tracker.  It re-uses the rows of `codes` itself to collect the first row of every new key
(`uniques = codes` is an alias, eliminated by the translator: both names are one array): the proof carries the
invariant "rows at or after the current one are untouched" that makes this sound (`group_id <= i`).
-/

namespace GV.LoopBridge
open GV GV.Generated.Loops

section
variable (k : Kind) (n : Nat) (ncols : Int) (orig : Int → Int → Int) (wl : Int) (w : Int → Int) (tlen : Int)

/-- mixed-radix key of row `i` of the original code matrix (`-1`: some component is null) -/
def cfKey (i : Nat) : Int := (weight_code_sum k ncols (orig (i : Int)) wl w).1

def cfKeys : List Int := (List.range n).map (cfKey k ncols orig wl w)

/-- the distinct non-null keys of the first `t` rows, in order of first appearance -/
def cfLabels (t : Nat) : List Int := dedup (((cfKeys k n ncols orig wl w).take t).filter (fun x => decide (x ≠ -1)))

theorem cfKeys_length : (cfKeys k n ncols orig wl w).length = n := by simp [cfKeys]

theorem cfKeys_get (i : Nat) (hi : i < n) : (cfKeys k n ncols orig wl w)[i]? = some (cfKey k ncols orig wl w i) := by
  simp [cfKeys, hi]

theorem cfLabels_succ (t : Nat) (ht : t < n) :
    cfLabels k n ncols orig wl w (t + 1) =
      if cfKey k ncols orig wl w t = -1 then cfLabels k n ncols orig wl w t
      else if cfKey k ncols orig wl w t ∈ cfLabels k n ncols orig wl w t then cfLabels k n ncols orig wl w t
      else cfLabels k n ncols orig wl w t ++ [cfKey k ncols orig wl w t] := by
  unfold cfLabels
  have hlt : t < (cfKeys k n ncols orig wl w).length := by rw [cfKeys_length]; exact ht
  have hget : (cfKeys k n ncols orig wl w)[t] = cfKey k ncols orig wl w t := by
    have := cfKeys_get k n ncols orig wl w t ht
    rw [List.getElem?_eq_getElem hlt] at this; simpa using this
  rw [List.take_succ_eq_append_getElem hlt, hget, List.filter_append]
  by_cases h1 : cfKey k ncols orig wl w t = -1
  · simp [h1]
  · simp only [h1, if_false, List.filter_cons, ne_eq, not_false_eq_true, decide_true, if_true, List.filter_nil]
    rw [dedup_concat]
    simp only [mem_dedup]

theorem mem_cfLabels (t j : Nat) (hj : j < t) (ht : t ≤ n) (hk : cfKey k ncols orig wl w j ≠ -1) :
    cfKey k ncols orig wl w j ∈ cfLabels k n ncols orig wl w t := by
  unfold cfLabels
  rw [mem_dedup, List.mem_filter]
  refine ⟨?_, by simpa using hk⟩
  rw [List.mem_iff_getElem?]
  refine ⟨j, ?_⟩
  rw [List.getElem?_take, if_pos hj]
  exact cfKeys_get k n ncols orig wl w j (by omega)

theorem cfLabels_ne (t : Nat) (x : Int) (hx : x ∈ cfLabels k n ncols orig wl w t) : x ≠ -1 := by
  unfold cfLabels at hx
  rw [mem_dedup, List.mem_filter] at hx
  simpa using hx.2

theorem cfLabels_mem_take (t : Nat) (x : Int) (hx : x ≠ -1) :
    x ∈ cfLabels k n ncols orig wl w t ↔ x ∈ (cfKeys k n ncols orig wl w).take t := by
  unfold cfLabels
  rw [mem_dedup, List.mem_filter]
  constructor
  · exact fun h => h.1
  · exact fun h => ⟨h, by simpa using hx⟩

/-- first occurrence: an element at position `t` that does not occur before has index `t` -/
theorem idxOf_first (l : List Int) (t : Nat) (y : Int) (h : l[t]? = some y) (hn : y ∉ l.take t) : l.idxOf y = t := by
  have hlt : t < l.length := by
    rcases Nat.lt_or_ge t l.length with h' | h'
    · exact h'
    · rw [List.getElem?_eq_none_iff.mpr h'] at h; simp at h
  have hy : l[t] = y := by rw [List.getElem?_eq_getElem hlt] at h; simpa using h
  have hsplit : l = l.take t ++ y :: l.drop (t + 1) := by
    have h1 := List.take_append_drop (t + 1) l
    rw [List.take_succ_eq_append_getElem hlt, hy] at h1
    simpa using h1.symm
  have hlen : (l.take t).length = t := by simp; omega
  rw [hsplit, List.idxOf_append, if_neg hn, List.idxOf_cons_self, hlen]
  omega

/-- what the loop state holds after `t` rows -/
structure CFInv (t : Nat) (st : Combine_factorizations_arr_loop1St) : Prop where
  gid : st.group_id = ((cfLabels k n ncols orig wl w t).length : Int)
  le : (cfLabels k n ncols orig wl w t).length ≤ t
  tr : ∀ x : Int, 0 ≤ x → x < tlen →
    st.code_tracker x = if x ∈ cfLabels k n ncols orig wl w t then ((cfLabels k n ncols orig wl w t).idxOf x : Int) else -1
  cc : ∀ j : Nat, j < t → st.combined_codes (j : Int) =
    if cfKey k ncols orig wl w j = -1 then -1 else ((cfLabels k n ncols orig wl w t).idxOf (cfKey k ncols orig wl w j) : Int)
  un : ∀ g : Nat, g < (cfLabels k n ncols orig wl w t).length → ∀ c : Int,
    st.codes (g : Int) c = orig (((cfKeys k n ncols orig wl w).idxOf ((cfLabels k n ncols orig wl w t).getD g 0) : Nat) : Int) c
  rest : ∀ j : Nat, t ≤ j → st.codes (j : Int) = orig (j : Int)
  err : st.err = false

theorem CFInv.of (t : Nat) (st : Combine_factorizations_arr_loop1St) (L1 : List Int)
    (hL1 : cfLabels k n ncols orig wl w t = L1)
    (gid : st.group_id = (L1.length : Int)) (le : L1.length ≤ t)
    (tr : ∀ x : Int, 0 ≤ x → x < tlen → st.code_tracker x = if x ∈ L1 then (L1.idxOf x : Int) else -1)
    (cc : ∀ j : Nat, j < t → st.combined_codes (j : Int) =
      if cfKey k ncols orig wl w j = -1 then -1 else (L1.idxOf (cfKey k ncols orig wl w j) : Int))
    (un : ∀ g : Nat, g < L1.length → ∀ c : Int,
      st.codes (g : Int) c = orig (((cfKeys k n ncols orig wl w).idxOf (L1.getD g 0) : Nat) : Int) c)
    (rest : ∀ j : Nat, t ≤ j → st.codes (j : Int) = orig (j : Int)) (err : st.err = false) :
    CFInv k n ncols orig wl w tlen t st := by
  subst hL1
  exact ⟨gid, le, tr, cc, un, rest, err⟩

theorem cf_step (htl : 0 < tlen)
    (herr : ∀ i : Nat, i < n → (weight_code_sum k ncols (orig (i : Int)) wl w).2 = false)
    (hrange : ∀ i : Nat, i < n → cfKey k ncols orig wl w i = -1 ∨ (0 ≤ cfKey k ncols orig wl w i ∧ cfKey k ncols orig wl w i < tlen))
    (t : Nat) (ht : t < n) (st : Combine_factorizations_arr_loop1St) (h : CFInv k n ncols orig wl w tlen t st) :
    CFInv k n ncols orig wl w tlen (t + 1)
      (combine_factorizations_arr_loop1_step k wl w (decide (tlen > 0)) n tlen n ncols st (t : Int)) := by
  obtain ⟨scc, str, scodes, sgid, serr⟩ := st
  obtain ⟨hgid, hle, htr, hcc, hun, hrest, herr0⟩ := h
  simp only at hgid hle htr hcc hun hrest herr0
  have hrow : scodes (t : Int) = orig (t : Int) := hrest t (Nat.le_refl _)
  have hkey : (weight_code_sum k ncols (orig (t : Int)) wl w) = (cfKey k ncols orig wl w t, false) := by
    have := herr t ht
    unfold cfKey
    rw [← this]
  have hLs := cfLabels_succ k n ncols orig wl w t ht
  have hta : decide (tlen > 0) = true := by simpa using htl
  subst hgid herr0
  simp only [combine_factorizations_arr_loop1_step, normI_natCast, hrow, hkey, hta, Bool.not_false, Bool.not_true,
    Bool.or_false, if_true]
  generalize hK : cfKey k ncols orig wl w t = key at hLs
  generalize hL : cfLabels k n ncols orig wl w t = L at hLs hle htr hcc hun
  by_cases h1 : key = -1
  · -- a null component: code -1, nothing else moves
    simp only [h1, if_true] at hLs
    simp only [h1, decide_true, if_true]
    refine CFInv.of k n ncols orig wl w tlen (t + 1) _ L hLs rfl (by omega) htr ?_ hun (fun j hj => hrest j (by omega)) rfl
    intro j hj
    simp only [aset_apply]
    by_cases e : j = t
    · subst e; simp [hK, h1]
    · have : ((j : Int) = (t : Int)) = False := by simp; omega
      simp only [this, if_false]
      exact hcc j (by omega)
  · simp only [h1, if_false] at hLs
    have hk0 : 0 ≤ key ∧ key < tlen := by
      rcases hrange t ht with h' | h'
      · rw [hK] at h'; exact absurd h' h1
      · rw [hK] at h'; exact h'
    have hcode := htr key hk0.1 hk0.2
    simp only [h1, decide_false, Bool.false_eq_true, if_false, normI_nonneg _ _ hk0.1, hcode]
    have hmemj : ∀ j : Nat, j < t → cfKey k ncols orig wl w j ≠ -1 → cfKey k ncols orig wl w j ∈ L := by
      intro j hj hne; rw [← hL]; exact mem_cfLabels k n ncols orig wl w t j hj (by omega) hne
    by_cases hm : key ∈ L
    · -- a key seen before: its number
      simp only [hm, if_true] at hLs ⊢
      have hne : ¬ ((List.idxOf key L : Nat) : Int) = -1 := by omega
      simp only [hne, decide_false, Bool.false_eq_true, if_false]
      refine CFInv.of k n ncols orig wl w tlen (t + 1) _ L hLs rfl (by omega) htr ?_ hun (fun j hj => hrest j (by omega)) rfl
      intro j hj
      simp only [aset_apply]
      by_cases e : j = t
      · subst e; simp [hK, h1]
      · have : ((j : Int) = (t : Int)) = False := by simp; omega
        simp only [this, if_false]
        exact hcc j (by omega)
    · -- a new key
      simp only [hm, if_false] at hLs ⊢
      simp only [decide_true, if_true]
      have hlen : (L ++ [key]).length = L.length + 1 := by simp
      have hidx : List.idxOf key (L ++ [key]) = L.length := by
        rw [List.idxOf_append, if_neg hm, List.idxOf_cons_self]; omega
      have hidx' : ∀ x, x ∈ L → List.idxOf x (L ++ [key]) = List.idxOf x L := by
        intro x hx; rw [List.idxOf_append, if_pos hx]
      refine CFInv.of k n ncols orig wl w tlen (t + 1) _ (L ++ [key]) hLs (by rw [hlen]; simp) (by rw [hlen]; omega)
        ?_ ?_ ?_ ?_ rfl
      · intro x hx0 hx1
        simp only [aset_apply]
        by_cases e : x = key
        · subst e
          simp [hidx]
        · simp only [e, if_false, htr x hx0 hx1, List.mem_append, List.mem_singleton, or_false]
          by_cases hxl : x ∈ L
          · simp [hxl, hidx' x hxl]
          · simp [hxl]
      · intro j hj
        simp only [aset_apply]
        by_cases e : j = t
        · subst e
          simp [hK, h1, hidx]
        · have : ((j : Int) = (t : Int)) = False := by simp; omega
          simp only [this, if_false, hcc j (by omega)]
          by_cases hkj : cfKey k ncols orig wl w j = -1
          · simp [hkj]
          · simp only [hkj, if_false]
            rw [hidx' _ (hmemj j (by omega) hkj)]
      · intro g hg c
        rw [hlen] at hg
        simp only [asetRow, normI_natCast]
        by_cases e : g = L.length
        · subst e
          simp only [if_true, List.getD_eq_getElem?_getD, List.getElem?_append_right (Nat.le_refl _), Nat.sub_self,
            List.getElem?_cons_zero, Option.getD_some]
          have hfirst : (cfKeys k n ncols orig wl w).idxOf key = t := by
            apply idxOf_first
            · rw [← hK]; exact cfKeys_get k n ncols orig wl w t ht
            · rw [← cfLabels_mem_take k n ncols orig wl w t key h1, hL]; exact hm
          rw [hfirst]
        · have : ((g : Int) = (L.length : Int)) = False := by simp; omega
          simp only [this, if_false]
          rw [hun g (by omega) c, List.getD_eq_getElem?_getD, List.getD_eq_getElem?_getD,
            List.getElem?_append_left (by omega)]
      · intro j hj
        funext c
        simp only [asetRow, normI_natCast]
        have : ((j : Int) = (L.length : Int)) = False := by simp; omega
        simp only [this, if_false]
        exact congrFun (hrest j (by omega)) c

/-- the same for the dict tracker (`nb.typed.Dict`, modelled as `Int → Option Int`): a key is present iff it was seen -/
structure CFInvD (t : Nat) (st : Combine_factorizations_dict_loop1St) : Prop where
  gid : st.group_id = ((cfLabels k n ncols orig wl w t).length : Int)
  le : (cfLabels k n ncols orig wl w t).length ≤ t
  tr : ∀ x : Int,
    st.code_tracker x = if x ∈ cfLabels k n ncols orig wl w t then some ((cfLabels k n ncols orig wl w t).idxOf x : Int) else none
  cc : ∀ j : Nat, j < t → st.combined_codes (j : Int) =
    if cfKey k ncols orig wl w j = -1 then -1 else ((cfLabels k n ncols orig wl w t).idxOf (cfKey k ncols orig wl w j) : Int)
  un : ∀ g : Nat, g < (cfLabels k n ncols orig wl w t).length → ∀ c : Int,
    st.codes (g : Int) c = orig (((cfKeys k n ncols orig wl w).idxOf ((cfLabels k n ncols orig wl w t).getD g 0) : Nat) : Int) c
  rest : ∀ j : Nat, t ≤ j → st.codes (j : Int) = orig (j : Int)
  err : st.err = false

theorem CFInvD.of (t : Nat) (st : Combine_factorizations_dict_loop1St) (L1 : List Int)
    (hL1 : cfLabels k n ncols orig wl w t = L1)
    (gid : st.group_id = (L1.length : Int)) (le : L1.length ≤ t)
    (tr : ∀ x : Int, st.code_tracker x = if x ∈ L1 then some (L1.idxOf x : Int) else none)
    (cc : ∀ j : Nat, j < t → st.combined_codes (j : Int) =
      if cfKey k ncols orig wl w j = -1 then -1 else (L1.idxOf (cfKey k ncols orig wl w j) : Int))
    (un : ∀ g : Nat, g < L1.length → ∀ c : Int,
      st.codes (g : Int) c = orig (((cfKeys k n ncols orig wl w).idxOf (L1.getD g 0) : Nat) : Int) c)
    (rest : ∀ j : Nat, t ≤ j → st.codes (j : Int) = orig (j : Int)) (err : st.err = false) :
    CFInvD k n ncols orig wl w t st := by
  subst hL1
  exact ⟨gid, le, tr, cc, un, rest, err⟩

theorem cf_step_dict (htl : tlen ≤ 0)
    (herr : ∀ i : Nat, i < n → (weight_code_sum k ncols (orig (i : Int)) wl w).2 = false)
    (t : Nat) (ht : t < n) (st : Combine_factorizations_dict_loop1St) (h : CFInvD k n ncols orig wl w t st) :
    CFInvD k n ncols orig wl w (t + 1)
      (combine_factorizations_dict_loop1_step k wl w (decide (tlen > 0)) n tlen n ncols st (t : Int)) := by
  obtain ⟨scc, str, scodes, sgid, serr⟩ := st
  obtain ⟨hgid, hle, htr, hcc, hun, hrest, herr0⟩ := h
  simp only at hgid hle htr hcc hun hrest herr0
  have hrow : scodes (t : Int) = orig (t : Int) := hrest t (Nat.le_refl _)
  have hkey : (weight_code_sum k ncols (orig (t : Int)) wl w) = (cfKey k ncols orig wl w t, false) := by
    have := herr t ht
    unfold cfKey
    rw [← this]
  have hLs := cfLabels_succ k n ncols orig wl w t ht
  have hta : decide (tlen > 0) = false := by simp; omega
  subst hgid herr0
  simp only [combine_factorizations_dict_loop1_step, normI_natCast, hrow, hkey, hta, Bool.not_false, Bool.not_true,
    Bool.or_false, if_true]
  generalize hK : cfKey k ncols orig wl w t = key at hLs
  generalize hL : cfLabels k n ncols orig wl w t = L at hLs hle htr hcc hun
  by_cases h1 : key = -1
  · -- a null component: code -1, nothing else moves
    simp only [h1, if_true] at hLs
    simp only [h1, decide_true, if_true]
    refine CFInvD.of k n ncols orig wl w (t + 1) _ L hLs rfl (by omega) htr ?_ hun (fun j hj => hrest j (by omega)) rfl
    intro j hj
    simp only [aset_apply]
    by_cases e : j = t
    · subst e; simp [hK, h1]
    · have : ((j : Int) = (t : Int)) = False := by simp; omega
      simp only [this, if_false]
      exact hcc j (by omega)
  · simp only [h1, if_false] at hLs
    have hcode := htr key
    simp only [h1, decide_false, Bool.false_eq_true, if_false, hcode]
    have hmemj : ∀ j : Nat, j < t → cfKey k ncols orig wl w j ≠ -1 → cfKey k ncols orig wl w j ∈ L := by
      intro j hj hne; rw [← hL]; exact mem_cfLabels k n ncols orig wl w t j hj (by omega) hne
    by_cases hm : key ∈ L
    · -- a key seen before: its number
      simp only [hm, if_true] at hLs ⊢
      have hne : ¬ ((List.idxOf key L : Nat) : Int) = -1 := by omega
      simp only [Option.isSome_some, Option.getD_some, hne, decide_false, Bool.false_eq_true, if_false, if_true,
        Bool.not_true, Bool.or_false]
      refine CFInvD.of k n ncols orig wl w (t + 1) _ L hLs rfl (by omega) htr ?_ hun (fun j hj => hrest j (by omega)) rfl
      intro j hj
      simp only [aset_apply]
      by_cases e : j = t
      · subst e; simp [hK, h1]
      · have : ((j : Int) = (t : Int)) = False := by simp; omega
        simp only [this, if_false]
        exact hcc j (by omega)
    · -- a new key
      simp only [hm, if_false] at hLs ⊢
      simp only [Option.isSome_none, Bool.false_eq_true, if_false, decide_true, if_true]
      have hlen : (L ++ [key]).length = L.length + 1 := by simp
      have hidx : List.idxOf key (L ++ [key]) = L.length := by
        rw [List.idxOf_append, if_neg hm, List.idxOf_cons_self]; omega
      have hidx' : ∀ x, x ∈ L → List.idxOf x (L ++ [key]) = List.idxOf x L := by
        intro x hx; rw [List.idxOf_append, if_pos hx]
      refine CFInvD.of k n ncols orig wl w (t + 1) _ (L ++ [key]) hLs (by rw [hlen]; simp) (by rw [hlen]; omega)
        ?_ ?_ ?_ ?_ rfl
      · intro x
        simp only [aset_apply]
        by_cases e : x = key
        · subst e
          simp [hidx]
        · simp only [e, if_false, htr x, List.mem_append, List.mem_singleton, or_false]
          by_cases hxl : x ∈ L
          · simp [hxl, hidx' x hxl]
          · simp [hxl]
      · intro j hj
        simp only [aset_apply]
        by_cases e : j = t
        · subst e
          simp [hK, h1, hidx]
        · have : ((j : Int) = (t : Int)) = False := by simp; omega
          simp only [this, if_false, hcc j (by omega)]
          by_cases hkj : cfKey k ncols orig wl w j = -1
          · simp [hkj]
          · simp only [hkj, if_false]
            rw [hidx' _ (hmemj j (by omega) hkj)]
      · intro g hg c
        rw [hlen] at hg
        simp only [asetRow, normI_natCast]
        by_cases e : g = L.length
        · subst e
          simp only [if_true, List.getD_eq_getElem?_getD, List.getElem?_append_right (Nat.le_refl _), Nat.sub_self,
            List.getElem?_cons_zero, Option.getD_some]
          have hfirst : (cfKeys k n ncols orig wl w).idxOf key = t := by
            apply idxOf_first
            · rw [← hK]; exact cfKeys_get k n ncols orig wl w t ht
            · rw [← cfLabels_mem_take k n ncols orig wl w t key h1, hL]; exact hm
          rw [hfirst]
        · have : ((g : Int) = (L.length : Int)) = False := by simp; omega
          simp only [this, if_false]
          rw [hun g (by omega) c, List.getD_eq_getElem?_getD, List.getD_eq_getElem?_getD,
            List.getElem?_append_left (by omega)]
      · intro j hj
        funext c
        simp only [asetRow, normI_natCast]
        have : ((j : Int) = (L.length : Int)) = False := by simp; omega
        simp only [this, if_false]
        exact congrFun (hrest j (by omega)) c

end

/-- **`_combine_factorizations` with an array tracker** numbers the mixed-radix keys of the rows in order of first
appearance: with `L` the distinct non-null keys in that order, the code of a row is `-1` for a null key and the
position of its key in `L` otherwise, `L.length` groups are reported, row `g` of the returned `uniques` is the row of
the code matrix where `L[g]` first appears, and no error is flagged - provided the tracker starts at `-1` on
`[0, len)`, every key is below its length and `_weight_code_sum` does not fail on any row -/
theorem combine_factorizations_arr_eq (k : Kind) (n : Nat) (ncols : Int) (orig : Int → Int → Int) (wl : Int) (w : Int → Int)
    (tlen : Int) (tracker : Int → Int) (htl : 0 < tlen) (htr : ∀ x : Int, 0 ≤ x → x < tlen → tracker x = -1)
    (herr : ∀ i : Nat, i < n → (weight_code_sum k ncols (orig (i : Int)) wl w).2 = false)
    (hrange : ∀ i : Nat, i < n → cfKey k ncols orig wl w i = -1 ∨ (0 ≤ cfKey k ncols orig wl w i ∧ cfKey k ncols orig wl w i < tlen)) :
    let r := combine_factorizations_arr k n ncols orig wl w tlen tracker
    let L := cfLabels k n ncols orig wl w n
    r.2 = false ∧ r.1.2.2 = (L.length : Int) ∧
      (∀ j : Nat, j < n → r.1.1 (j : Int) = if cfKey k ncols orig wl w j = -1 then -1 else (L.idxOf (cfKey k ncols orig wl w j) : Int)) ∧
      (∀ g : Nat, g < L.length → ∀ c : Int,
        r.1.2.1 (g : Int) c = orig (((cfKeys k n ncols orig wl w).idxOf (L.getD g 0) : Nat) : Int) c) := by
  intro r L
  have key : ∀ t : Nat, t ≤ n →
      CFInv k n ncols orig wl w tlen t
        (((List.range t).map (fun i : Nat => (i : Int))).foldl
          (combine_factorizations_arr_loop1_step k wl w (decide (tlen > 0)) n tlen n ncols)
          ⟨fun _ => 0, tracker, orig, 0, false⟩) := by
    intro t
    induction t with
    | zero =>
      intro _
      simp only [List.range_zero, List.map_nil, List.foldl_nil]
      refine ⟨by simp [cfLabels, dedup], by simp [cfLabels, dedup], ?_, fun j hj => by omega, ?_, fun j _ => rfl, rfl⟩
      · intro x h0 h1; simp [cfLabels, dedup, htr x h0 h1]
      · intro g hg; simp [cfLabels, dedup] at hg
    | succ t ih =>
      intro ht
      rw [List.range_succ, List.map_append, List.foldl_append]
      simp only [List.map_cons, List.map_nil, List.foldl_cons, List.foldl_nil]
      exact cf_step k n ncols orig wl w tlen htl herr hrange t (by omega) _ (ih (by omega))
  obtain ⟨h1, _, _, h4, h5, _, h7⟩ := key n (Nat.le_refl _)
  simp only [r, combine_factorizations_arr, rangeI_natCast]
  exact ⟨h7, h1, h4, h5⟩

/-- **`_combine_factorizations` with a dict tracker** (the route for more than `use_dict_limit` key combinations): the
same first-appearance numbering, from an empty dict; no `KeyError` (the error flag stays false) -/
theorem combine_factorizations_dict_eq (k : Kind) (n : Nat) (ncols : Int) (orig : Int → Int → Int) (wl : Int) (w : Int → Int)
    (herr : ∀ i : Nat, i < n → (weight_code_sum k ncols (orig (i : Int)) wl w).2 = false) :
    let r := combine_factorizations_dict k n ncols orig wl w 0 (fun _ => none)
    let L := cfLabels k n ncols orig wl w n
    r.2 = false ∧ r.1.2.2 = (L.length : Int) ∧
      (∀ j : Nat, j < n → r.1.1 (j : Int) = if cfKey k ncols orig wl w j = -1 then -1 else (L.idxOf (cfKey k ncols orig wl w j) : Int)) ∧
      (∀ g : Nat, g < L.length → ∀ c : Int,
        r.1.2.1 (g : Int) c = orig (((cfKeys k n ncols orig wl w).idxOf (L.getD g 0) : Nat) : Int) c) := by
  intro r L
  have key : ∀ t : Nat, t ≤ n →
      CFInvD k n ncols orig wl w t
        (((List.range t).map (fun i : Nat => (i : Int))).foldl
          (combine_factorizations_dict_loop1_step k wl w (decide ((0 : Int) > 0)) n 0 n ncols)
          ⟨fun _ => 0, fun _ => none, orig, 0, false⟩) := by
    intro t
    induction t with
    | zero =>
      intro _
      simp only [List.range_zero, List.map_nil, List.foldl_nil]
      refine ⟨by simp [cfLabels, dedup], by simp [cfLabels, dedup], ?_, fun j hj => by omega, ?_, fun j _ => rfl, rfl⟩
      · intro x; simp [cfLabels, dedup]
      · intro g hg; simp [cfLabels, dedup] at hg
    | succ t ih =>
      intro ht
      rw [List.range_succ, List.map_append, List.foldl_append]
      simp only [List.map_cons, List.map_nil, List.foldl_cons, List.foldl_nil]
      exact cf_step_dict k n ncols orig wl w 0 (Int.le_refl 0) herr t (by omega) _ (ih (by omega))
  obtain ⟨h1, _, _, h4, h5, _, h7⟩ := key n (Nat.le_refl _)
  simp only [r, combine_factorizations_dict, rangeI_natCast]
  exact ⟨h7, h1, h4, h5⟩

end GV.LoopBridge
