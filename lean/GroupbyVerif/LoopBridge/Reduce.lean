import GroupbyVerif.LoopBridge.Basic
import GroupbyVerif.Generated.Loops

/-!
# Bridge: the translated `_group_by_reduce` and `reduce_array_pair` are the hand-written models

`Generated.Loops.group_by_reduce` is produced from the current source text of
`groupby_lib/groupby/numba.py:_group_by_reduce` on every run.  These theorems show that it computes, at every
non-negative group code, exactly `groupByReduce` (the model all kernel theorems of C04 / C01 are about), for both
branches of the loop (rows in array order; rows through an indexer with numba's wrap-around of negative positions).
-/

namespace GV.LoopBridge
open GV GV.Generated.Loops

/-- simulation relation: the two arrays of the loop agree with the per-group partial at every non-negative code -/
def RedRel (target : Int → Val) (count : Int → Int) (m : Int → Partial) : Prop :=
  ∀ g : Int, 0 ≤ g → (target g, count g) = m g

theorem redRel_step (red : Red) (target : Int → Val) (count : Int → Int) (m : Int → Partial) (tl cl : Int)
    (key : Int) (v : Val) (h : RedRel target count m) (hk : ¬ key < 0) :
    RedRel (aset target (normI tl key) (red (target (normI tl key)) v (count (normI cl key))).1)
      (aset count (normI cl key) (red (target (normI tl key)) v (count (normI cl key))).2)
      (gstep (pstep red) m (key, v)) := by
  have hk0 : 0 ≤ key := by omega
  intro g hg
  rw [normI_nonneg _ _ hk0, normI_nonneg _ _ hk0]
  have hkey := h key hk0
  have hgg := h g hg
  simp only [gstep, hk, if_false, upd, pstep, aset_apply]
  by_cases e : g = key
  · subst e
    simp only [if_true]
    rw [← hkey]
  · simp only [e, if_false]
    exact hgg

/-- one iteration of the plain loop simulates one `gstep` -/
theorem loop1_step_rel (k : Kind) (red : Red) (codes : List Int) (vals : List Val) (tl cl : Int)
    (st : Group_by_reduce_loop1St) (m : Int → Partial) (i : Nat) (hi : i < codes.length) (hv : i < vals.length)
    (h : RedRel st.target st.count m) :
    let st' := group_by_reduce_loop1_step k codes.length (arrOf codes 0) vals.length (arrOf vals .nan) red tl cl st
      (i : Int)
    RedRel st'.target st'.count (gstep (pstep red) m ((codes.zip vals).getD i (0, Val.nan))) := by
  intro st'
  rw [zip_getD _ _ _ _ _ hi hv]
  simp only [st', group_by_reduce_loop1_step, normI_natCast, arrOf_natCast]
  by_cases hk : codes.getD i 0 < 0
  · simp only [hk, decide_true, if_true, gstep]
    exact h
  · simp only [hk, decide_false, Bool.false_eq_true, if_false]
    exact redRel_step red _ _ _ _ _ _ _ h hk

/-- **`_group_by_reduce` without an indexer is `groupByReduce`** over the rows in array order -/
theorem group_by_reduce_plain (k : Kind) (red : Red) (init : Val) (codes : List Int) (vals : List Val)
    (hlen : codes.length = vals.length) (tlen : Int) (cib : Bool) (g : Int) (hg : 0 ≤ g) :
    let r := group_by_reduce k codes.length (arrOf codes 0) vals.length (arrOf vals .nan) tlen (fun _ => init) red
      false [] cib
    r.2 = false ∧ (r.1.1 g, r.1.2 g) = groupByReduce red init (codes.zip vals) g := by
  have key : ∀ (st : Group_by_reduce_loop1St) (m : Int → Partial), RedRel st.target st.count m →
      let st' := (rangeI codes.length).foldl
        (group_by_reduce_loop1_step k codes.length (arrOf codes 0) vals.length (arrOf vals .nan) red tlen tlen) st
      RedRel st'.target st'.count ((codes.zip vals).foldl (gstep (pstep red)) m) := by
    intro st m h
    have hz : (codes.zip vals) = (List.range codes.length).map (fun i => (codes.zip vals).getD i (0, Val.nan)) := by
      have := list_eq_map_range (codes.zip vals) (0, Val.nan)
      simpa [hlen] using this
    rw [rangeI_natCast, hz]
    exact fold_rel_map (fun (s : Group_by_reduce_loop1St) t => RedRel s.target s.count t) (fun i => i < codes.length)
      (fun i : Nat => (i : Int)) _ _ _
      (fun s t i hi hr => loop1_step_rel k red codes vals tlen tlen s t i hi (by omega) hr)
      _ _ _ (by intro i hi; simpa using hi) h
  intro r
  have h0 : RedRel (fun _ => init) (fun _ => (0 : Int)) (fun _ => (init, 0)) := fun _ _ => rfl
  have := key ⟨fun _ => init, fun _ => 0⟩ _ h0
  constructor
  · simp [r, group_by_reduce]
  · simpa [r, group_by_reduce, groupByReduce, groupFold] using this g hg

/-! ### the indexer branch (positional masks, boolean masks after `nonzero`) -/

theorem loop2_step_rel (k : Kind) (red : Red) (codes : List Int) (vals : List Val) (hlen : codes.length = vals.length)
    (tl cl : Int) (st : Group_by_reduce_loop2St) (m : Int → Partial) (p : Int) (row : Row)
    (hrow : elemAt (codes.zip vals) p = some row)
    (h : RedRel st.target st.count m) :
    let st' := group_by_reduce_loop2_step k codes.length (arrOf codes 0) vals.length (arrOf vals .nan) red true
      codes.length tl cl st p
    st'.err = st.err ∧ RedRel st'.target st'.count (gstep (pstep red) m row) := by
  intro st'
  -- the position is inside [-n, n)
  have hq := elemAt_some _ _ _ hrow
  simp only [List.length_zip, ← hlen, Nat.min_self] at hq
  obtain ⟨hq0, hqlt, hget⟩ := hq
  have hnorm : normI codes.length p = normIdx codes.length p := by
    unfold normI normIdx; rfl
  have hpn : ¬ (p ≥ (codes.length : Int)) := by
    unfold normIdx at hq0 hqlt
    split at hqlt <;> omega
  have hrow' : row = (codes.getD (normIdx codes.length p).toNat 0, vals.getD (normIdx codes.length p).toNat .nan) := by
    have := zip_getD codes vals 0 Val.nan _ hqlt (by omega)
    rw [List.getD_eq_getElem?_getD, hget] at this
    simpa using this
  have hidx : ((normIdx codes.length p).toNat : Int) = normIdx codes.length p := by omega
  simp only [st', group_by_reduce_loop2_step, hpn, decide_false, Bool.and_false, Bool.false_eq_true, if_false]
  rw [← hlen, hnorm, ← hidx, arrOf_natCast, arrOf_natCast, hrow']
  by_cases hk : codes.getD (normIdx codes.length p).toNat 0 < 0
  · simp only [hk, decide_true, if_true, gstep]
    exact ⟨trivial, h⟩
  · simp only [hk, decide_false, Bool.false_eq_true, if_false]
    exact ⟨trivial, redRel_step red _ _ _ _ _ _ _ h hk⟩

/-- **`_group_by_reduce` with an indexer is `groupByReduce` over `rows[indexer]`** (array indexing with
wrap-around of negative positions), and it does not raise when every position is inside `[-n, n)` -/
theorem group_by_reduce_indexer (k : Kind) (red : Red) (init : Val) (codes : List Int) (vals : List Val)
    (hlen : codes.length = vals.length) (tlen : Int) (ps : List Int) (sel : List Row)
    (hsel : takePositions (codes.zip vals) ps = some sel) (g : Int) (hg : 0 ≤ g) :
    let r := group_by_reduce k codes.length (arrOf codes 0) vals.length (arrOf vals .nan) tlen (fun _ => init) red
      true ps true
    r.2 = false ∧ (r.1.1 g, r.1.2 g) = groupByReduce red init sel g := by
  have key : ∀ (ps : List Int) (sel : List Row) (st : Group_by_reduce_loop2St) (m : Int → Partial),
      takePositions (codes.zip vals) ps = some sel → RedRel st.target st.count m →
      let st' := ps.foldl
        (group_by_reduce_loop2_step k codes.length (arrOf codes 0) vals.length (arrOf vals .nan) red true codes.length
          tlen tlen) st
      st'.err = st.err ∧ RedRel st'.target st'.count (sel.foldl (gstep (pstep red)) m) := by
    intro ps
    induction ps with
    | nil =>
      intro sel st m hs h
      rw [takePos_nil] at hs
      cases hs
      exact ⟨rfl, h⟩
    | cons p ps ih =>
      intro sel st m hs h
      obtain ⟨row, rest, hrow, hrest, rfl⟩ := (takePos_cons_iff _ _ _ _).mp hs
      have hs1 := loop2_step_rel k red codes vals hlen tlen tlen st m p row hrow h
      have := ih rest _ _ hrest hs1.2
      simp only [List.foldl_cons]
      exact ⟨this.1.trans hs1.1, this.2⟩
  intro r
  have h0 : RedRel (fun _ => init) (fun _ => (0 : Int)) (fun _ => (init, 0)) := fun _ _ => rfl
  have := key ps sel ⟨fun _ => init, fun _ => 0, false⟩ _ hsel h0
  constructor
  · simpa [r, group_by_reduce] using this.1
  · simpa [r, group_by_reduce, groupByReduce, groupFold] using this.2 g hg

/-- a position at or beyond the end raises (the error flag is set) when bounds are checked -/
theorem group_by_reduce_indexer_oob_step (k : Kind) (red : Red) (gk : Int → Int) (vs : Int → Val) (n vl tl cl : Int)
    (st : Group_by_reduce_loop2St) (p : Int) (hp : p ≥ n) :
    (group_by_reduce_loop2_step k n gk vl vs red true n tl cl st p).err = true := by
  simp [group_by_reduce_loop2_step, hp]

/-! ### `reduce_array_pair` -/

theorem rap_step_out (k : Kind) (red : Red) (n : Int) (x y : Int → Val) (cx cy : Int → Int)
    (S : Reduce_array_pair_loop1St) (m : Nat) (j : Int) :
    (reduce_array_pair_loop1_step k n x n y red n true cx n true cy S (m : Int)).out' j =
      if j = (m : Int) ∧ cy m ≠ 0 then (red (x m) (y m) (cx m)).1 else S.out' j := by
  simp only [reduce_array_pair_loop1_step, normI_natCast, Bool.true_and, Bool.not_true, Bool.false_eq_true, if_false]
  by_cases hc : cy (m : Int) = 0
  · simp [hc]
  · simp only [hc, decide_false, Bool.false_eq_true, if_false, aset_apply, ne_eq, not_false_eq_true, and_true]

/-- **`reduce_array_pair` is the pairwise merge `mergePair`** at every position (called with both count arrays, as
`combine_chunk_results_for_factorized_key` does): an empty right partial is skipped, otherwise the reducer sees the
left accumulator, the right accumulator and the left count -/
theorem reduce_array_pair_eq (k : Kind) (red : Red) (n : Nat) (x y : Int → Val) (cx cy : Int → Int) (i : Nat)
    (hi : i < n) :
    let r := reduce_array_pair k n x n y red true n cx true n cy
    r.2 = false ∧ (r.1 i, cx i + cy i) = mergePair red (x i, cx i) (y i, cy i) := by
  have key : ∀ (m : Nat) (st : Reduce_array_pair_loop1St) (j : Nat),
      (((List.range m).map (fun i : Nat => (i : Int))).foldl
        (reduce_array_pair_loop1_step k n x n y red n true cx n true cy) st).out' j
        = if j < m ∧ cy j ≠ 0 then (red (x j) (y j) (cx j)).1 else st.out' j := by
    intro m
    induction m with
    | zero => intro st j; simp
    | succ m ih =>
      intro st j
      simp only [List.range_succ, List.map_append, List.foldl_append, List.map_cons, List.map_nil,
        List.foldl_cons, List.foldl_nil]
      rw [rap_step_out, ih st j]
      by_cases hjm : j = m
      · subst hjm
        by_cases hc : cy (j : Int) = 0 <;> simp [hc]
      · have h1 : ¬ ((j : Int) = (m : Int)) := by omega
        have h2 : (j < m + 1) = (j < m) := by apply propext; omega
        simp only [h1, false_and, if_false, h2]
  intro r
  have := key n ⟨x⟩ i
  constructor
  · simp [r, reduce_array_pair]
  · simp only [r, reduce_array_pair, rangeI_natCast]
    rw [this]
    simp only [hi, true_and, mergePair]
    by_cases hc : cy (i : Int) = 0 <;> simp [hc]

end GV.LoopBridge
