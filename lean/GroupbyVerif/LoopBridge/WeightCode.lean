import GroupbyVerif.LoopBridge.Basic
import GroupbyVerif.Generated.Loops
import GroupbyVerif.Model.Factorize

/-!
# Bridge: the translated `_weight_code_sum` is the mixed-radix combination `weightCodeSum`

The source walks all but the last (code, weight) pair, returns `-1` from inside the loop at the first null code, then
tests the last code separately and adds it with weight one.  The model is the textbook mixed-radix value
`Σ code_j · Π shape[j+1:]` with `none` as soon as one code is null.
-/

namespace GV.LoopBridge
open GV GV.Generated.Loops

/-- the weights `factorize_2d` passes: `Π shape[j+1:]` per key position -/
def weightsOf : List Nat → List Int
  | [] => []
  | _ :: ss => ((ss.foldl (· * ·) 1 : Nat) : Int) :: weightsOf ss

@[simp] theorem weightsOf_length (shape : List Nat) : (weightsOf shape).length = shape.length := by
  induction shape with
  | nil => rfl
  | cons s ss ih => simp [weightsOf, ih]

/-- one loop iteration on a (code, weight) pair -/
def wstep (st : Weight_code_sum_loop1St) (p : Int × Int) : Weight_code_sum_loop1St :=
  if st.done then st else if p.1 = -1 then ⟨st.out', true, some (-1)⟩ else ⟨st.out' + p.1 * p.2, false, st.ret⟩

/-- the loop on a list of pairs: stopped with `-1` at the first null code, the weighted sum otherwise -/
theorem wstep_fold (L : List (Int × Int)) (o : Int) :
    (L.any (fun p => p.1 == -1) = true →
      (L.foldl wstep ⟨o, false, none⟩).done = true ∧ (L.foldl wstep ⟨o, false, none⟩).ret = some (-1)) ∧
    (L.any (fun p => p.1 == -1) = false →
      L.foldl wstep ⟨o, false, none⟩ = ⟨o + (L.map (fun p => p.1 * p.2)).sum, false, none⟩) := by
  induction L generalizing o with
  | nil => simp
  | cons p ps ih =>
    have hstuck : ∀ (ps : List (Int × Int)) (s : Weight_code_sum_loop1St), s.done = true → ps.foldl wstep s = s := by
      intro ps
      induction ps with
      | nil => intro s _; rfl
      | cons q qs ihq => intro s hs; simp only [List.foldl_cons, wstep, hs, if_true]; exact ihq s hs
    simp only [List.foldl_cons, List.any_cons]
    by_cases hp : p.1 = -1
    · have h1 : wstep ⟨o, false, none⟩ p = ⟨o, true, some (-1)⟩ := by simp [wstep, hp]
      rw [h1, hstuck ps _ rfl]
      simp [hp]
    · have h1 : wstep ⟨o, false, none⟩ p = ⟨o + p.1 * p.2, false, none⟩ := by simp [wstep, hp]
      rw [h1]
      have hb : (p.1 == -1) = false := by simpa using hp
      simp only [hb, Bool.false_or, List.map_cons, List.sum_cons]
      have := ih (o + p.1 * p.2)
      refine ⟨this.1, fun h => ?_⟩
      rw [this.2 h]
      congr 1
      omega

/-- `Σ code_j · weight_j` -/
def dotAll : List Int → List Int → Int
  | c :: cs, w :: ws => c * w + dotAll cs ws
  | _, _ => 0

theorem dotAll_zip (cs ws : List Int) (h : cs.length = ws.length) :
    dotAll cs ws = ((cs.zip ws).map (fun p => p.1 * p.2)).sum := by
  induction cs generalizing ws with
  | nil => simp [dotAll]
  | cons c cs ih =>
    cases ws with
    | nil => simp at h
    | cons w ws => simp [dotAll, ih ws (by simpa using h)]

theorem dotAll_append (a b c d : List Int) (h : a.length = c.length) :
    dotAll (a ++ b) (c ++ d) = dotAll a c + dotAll b d := by
  induction a generalizing c with
  | nil => cases c with
    | nil => simp [dotAll]
    | cons _ _ => simp at h
  | cons x xs ih =>
    cases c with
    | nil => simp at h
    | cons y ys => simp only [List.cons_append, dotAll, ih ys (by simpa using h)]; omega

/-- the model in terms of "some code is null" and the weighted sum -/
theorem weightCodeSum_char (cs : List Int) (shape : List Nat) (hlen : cs.length = shape.length) (hge : ∀ c ∈ cs, -1 ≤ c) :
    (cs.any (fun c => c == -1) = true → weightCodeSum cs shape = none) ∧
    (cs.any (fun c => c == -1) = false →
      ∃ v, weightCodeSum cs shape = some v ∧ (v : Int) = dotAll cs (weightsOf shape)) := by
  induction cs generalizing shape with
  | nil => simp [weightCodeSum, dotAll]
  | cons c cs ih =>
    cases shape with
    | nil => simp at hlen
    | cons s ss =>
      have hc := hge c (by simp)
      obtain ⟨ih1, ih2⟩ := ih ss (by simpa using hlen) (fun x hx => hge x (by simp [hx]))
      simp only [weightCodeSum, List.any_cons, weightsOf, dotAll]
      by_cases hneg : c < 0
      · have : c = -1 := by omega
        simp [this]
      · have hne : (c == -1) = false := by
          have : c ≠ -1 := by omega
          simpa using this
        simp only [hneg, if_false, hne, Bool.false_or]
        constructor
        · intro ha; simp [ih1 ha]
        · intro ha
          obtain ⟨v, hv, hvd⟩ := ih2 ha
          refine ⟨c.toNat * ss.foldl (· * ·) 1 + v, by simp [hv], ?_⟩
          have hct : ((c.toNat : Nat) : Int) = c := by omega
          push_cast
          rw [hct, hvd]

theorem weightCodeSum_eq (cs : List Int) (shape : List Nat) (hlen : cs.length = shape.length) (hge : ∀ c ∈ cs, -1 ≤ c) :
    (match weightCodeSum cs shape with | none => (-1 : Int) | some v => (v : Int)) =
      (if cs.any (fun c => c == -1) then -1 else dotAll cs (weightsOf shape)) := by
  obtain ⟨h1, h2⟩ := weightCodeSum_char cs shape hlen hge
  by_cases ha : cs.any (fun c => c == -1) = true
  · simp [h1 ha, ha]
  · have ha' : cs.any (fun c => c == -1) = false := by
      cases h : cs.any (fun c => c == -1) <;> simp_all
    obtain ⟨v, hv, hvd⟩ := h2 ha'
    simp [hv, ha', hvd]

theorem weightsOf_last (shape : List Nat) (h : shape ≠ []) :
    ∃ init, weightsOf shape = init ++ [1] ∧ init.length + 1 = shape.length := by
  induction shape with
  | nil => exact absurd rfl h
  | cons s ss ih =>
    cases ss with
    | nil => exact ⟨[], by simp [weightsOf], by simp⟩
    | cons t ts =>
      obtain ⟨init, hi, hl⟩ := ih (by simp)
      exact ⟨_ :: init, by simp only [weightsOf] at hi ⊢; rw [hi]; rfl, by simp at hl ⊢; omega⟩

theorem wcs_step_eq (k : Kind) (cl wl : Int) (ca wa : Int → Int) (st : Weight_code_sum_loop1St) (q : Nat) :
    weight_code_sum_loop1_step k cl ca wl wa st (q : Int) = wstep st (ca (q : Int), wa (q : Int)) := by
  simp only [weight_code_sum_loop1_step, wstep, normI_natCast]
  by_cases hd : st.done = true
  · simp [hd]
  · by_cases hc : ca (q : Int) = -1 <;> simp [hd, hc]

/-- **`_weight_code_sum` is the mixed-radix combination `weightCodeSum`** (`-1` for "some key is null"), for the weights
`Π shape[j+1:]` that `factorize_2d` passes and codes that are `-1` or non-negative -/
theorem weight_code_sum_eq (k : Kind) (cs : List Int) (shape : List Nat) (hlen : cs.length = shape.length) (hm : cs ≠ [])
    (hge : ∀ c ∈ cs, -1 ≤ c) :
    let r := weight_code_sum k cs.length (arrOf cs 0) (weightsOf shape).length (arrOf (weightsOf shape) 0)
    r.2 = false ∧ r.1 = (match weightCodeSum cs shape with | none => (-1 : Int) | some v => (v : Int)) := by
  intro r
  have hsne : shape ≠ [] := by intro h; rw [h] at hlen; exact hm (List.length_eq_zero_iff.mp hlen)
  obtain ⟨winit, hws, hwl⟩ := weightsOf_last shape hsne
  have hcs : cs = cs.dropLast ++ [cs.getLast hm] := (List.dropLast_concat_getLast hm).symm
  generalize hinit : cs.dropLast = init at hcs
  generalize hlast : cs.getLast hm = last at hcs
  have hil : init.length + 1 = cs.length := by rw [hcs]; simp
  have hiw : init.length = winit.length := by omega
  rw [weightCodeSum_eq cs shape hlen hge]
  -- the loop over the leading pairs
  have hL : (List.range init.length).map (fun (q : Nat) => ((arrOf cs 0) (q : Int), (arrOf (weightsOf shape) 0) (q : Int)))
      = init.zip winit := by
    apply List.ext_getElem
    · simp; omega
    · intro q h1 h2
      simp only [List.length_map, List.length_range] at h1
      simp only [List.getElem_map, List.getElem_range, arrOf_natCast, List.getElem_zip]
      rw [hcs, hws, List.getD_eq_getElem?_getD, List.getD_eq_getElem?_getD,
        List.getElem?_append_left h1, List.getElem?_append_left (by omega)]
      simp [h1, (by omega : q < winit.length)]
  have hfold : (rangeI (min ((cs.length : Int) - 1) (((weightsOf shape).length : Int) - 1))).foldl
      (weight_code_sum_loop1_step k cs.length (arrOf cs 0) (weightsOf shape).length (arrOf (weightsOf shape) 0)) ⟨0, false, none⟩
      = (init.zip winit).foldl wstep ⟨0, false, none⟩ := by
    have e : min ((cs.length : Int) - 1) (((weightsOf shape).length : Int) - 1) = ((init.length : Nat) : Int) := by
      simp only [weightsOf_length]; omega
    rw [e, rangeI_natCast, ← hL]
    exact fold_rel_map (fun (s t : Weight_code_sum_loop1St) => s = t) (fun _ : Nat => True) (fun q : Nat => (q : Int))
      (fun (q : Nat) => ((arrOf cs 0) (q : Int), (arrOf (weightsOf shape) 0) (q : Int)))
      (weight_code_sum_loop1_step k cs.length (arrOf cs 0) (weightsOf shape).length (arrOf (weightsOf shape) 0)) wstep
      (fun s t q _ hst => by subst hst; exact wcs_step_eq k _ _ _ _ s q)
      _ _ _ (fun _ _ => trivial) rfl
  have hlastv : arrOf cs 0 (normI (cs.length : Int) (-1)) = last := by
    rw [normI_neg _ _ (by omega)]
    have : (-1 + (cs.length : Int)) = ((init.length : Nat) : Int) := by omega
    rw [this, arrOf_natCast, hcs, List.getD_eq_getElem?_getD]
    simp
  have hany : cs.any (fun c => c == -1) = ((init.zip winit).any (fun p => p.1 == -1) || (last == -1)) := by
    rw [hcs, List.any_append]
    congr 1
    · -- `any` over the zip looks at the codes only
      have : ∀ (a b : List Int), a.length = b.length → (a.zip b).any (fun p => p.1 == -1) = a.any (fun c => c == -1) := by
        intro a
        induction a with
        | nil => intro b _; simp
        | cons x xs ih =>
          intro b hb
          cases b with
          | nil => simp at hb
          | cons y ys => simp [ih ys (by simpa using hb)]
      exact (this init winit hiw).symm
    · simp
  have hdot : dotAll cs (weightsOf shape) = ((init.zip winit).map (fun p => p.1 * p.2)).sum + last := by
    rw [hcs, hws, dotAll_append _ _ _ _ hiw, dotAll_zip _ _ hiw]
    simp [dotAll]
  have hw := wstep_fold (init.zip winit) 0
  simp only [r, weight_code_sum, hfold, hlastv]
  by_cases ha : (init.zip winit).any (fun p => p.1 == -1) = true
  · obtain ⟨_, hr⟩ := hw.1 ha
    simp [hr, hany, ha]
  · have ha' : (init.zip winit).any (fun p => p.1 == -1) = false := by
      cases h : (init.zip winit).any (fun p => p.1 == -1) <;> simp_all
    have hr := hw.2 ha'
    rw [hr]
    by_cases hl : last = -1
    · simp [hany, ha', hl]
    · have hlb : (last == -1) = false := by simpa using hl
      simp [hany, ha', hlb, hl, hdot]

end GV.LoopBridge
