import GroupbyVerif.LoopBridge.Basic
import GroupbyVerif.Generated.Loops
import GroupbyVerif.Lemmas.RowSel

/-!
# Bridge: the translated `_find_nth` / `_find_first_or_last_n` are the hand-written models of `Model/RowSel.lean`

The translated loops keep `out` / `seen` as arrays indexed by the group code; the models keep one record per group.
The relation below ties them at every non-negative code; the `seen` counter is a 64-bit integer in the source (no
wrap is generated for it), the model wraps at the width extracted from the source, so the relation also carries
"`seen` is at most the number of rows visited so far", which makes the wrap the identity below `2^63` rows.
A row dropped by the mask behaves exactly like a row with a null key (`effCodes`).
-/

namespace GV.LoopBridge
open GV GV.Generated.Loops

def NthRel (c : Nat) (st : Find_nth_loop1St) (m : Int → NthSt) : Prop :=
  (∀ g : Int, 0 ≤ g → st.out' g = (m g).out ∧ st.seen g = (m g).seen ∧ 0 ≤ (m g).seen ∧ (m g).seen ≤ c) ∧
  (st.err = true → ∃ g : Int, 0 ≤ g ∧ (m g).failed = true)

theorem nth_step_rel (k : Kind) (codes : List Int) (msk : List Bool) (masked : Bool) (n' : Int) (ng ml : Int)
    (c : Nat) (hc : ((c : Int) + 1) < 2 ^ 63) (st : Find_nth_loop1St) (m : Int → NthSt) (i : Nat)
    (h : NthRel c st m) :
    NthRel (c + 1)
      (find_nth_loop1_step k codes.length (arrOf codes 0) n' ml masked (arrOf msk true) masked ng ng st (i : Int))
      (gstep (nthStep 64 n') m ((if masked && !(msk.getD i true) then -1 else codes.getD i 0), i)) := by
  obtain ⟨so, ss, se⟩ := st
  obtain ⟨hg, herr⟩ := h
  simp only at hg herr
  simp only [find_nth_loop1_step, normI_natCast, arrOf_natCast]
  generalize codes.getD i 0 = key
  generalize msk.getD i true = mb
  by_cases hk : key < 0
  · -- null key: nothing changes
    have he : (if masked && !mb then (-1 : Int) else key) < 0 := by split <;> omega
    simp only [hk, decide_true, if_true, gstep, he]
    exact ⟨fun g h0 => by have := hg g h0; simp only; omega, herr⟩
  · simp only [hk, decide_false, Bool.false_eq_true, if_false]
    by_cases hm : (masked && !mb) = true
    · simp only [hm, if_true, gstep]
      simp only [show ((-1 : Int) < 0) from by omega, if_true]
      exact ⟨fun g h0 => by have := hg g h0; simp only; omega, herr⟩
    · simp only [hm, Bool.false_eq_true, if_false, gstep, hk]
      have hk0 : 0 ≤ key := by omega
      rw [normI_nonneg _ _ hk0]
      obtain ⟨ho, hs, hs0, hsc⟩ := hg _ hk0
      have hw : wrapS 64 ((m key).seen + 1) = (m key).seen + 1 :=
        wrapS_id 64 (by omega) _ (by omega) (by simp only [show (64 - 1 : Nat) = 63 from rfl]; omega)
      simp only [hs, ho]
      constructor
      · intro g h0
        obtain ⟨go, gs, gs0, gsc⟩ := hg g h0
        by_cases e : g = key
        · subst e
          simp only [upd, if_true, nthStep, hw, aset_apply]
          refine ⟨?_, trivial, by omega, by omega⟩
          by_cases hsn : (m g).seen = n' <;> simp [hsn, aset_apply, ho]
        · simp only [upd, e, if_false, aset_apply]
          refine ⟨?_, gs, gs0, by omega⟩
          by_cases hsn : (m key).seen = n' <;> simp [hsn, go, aset_apply, e]
      · intro he
        by_cases hold : se = true
        · obtain ⟨g, h0, hf⟩ := herr hold
          refine ⟨g, h0, ?_⟩
          by_cases e : g = key
          · subst e; simp [upd, nthStep, hf]
          · simp [upd, e, hf]
        · refine ⟨key, hk0, ?_⟩
          simp only [upd, if_true, nthStep]
          by_cases hsn : (m key).seen = n'
          · simp only [hsn, decide_true, if_true, Bool.true_and, Bool.or_eq_true, decide_eq_true_eq] at he ⊢
            rcases he with he | he
            · exact absurd he hold
            · right; simpa using he
          · simp [hsn, hold] at he

/-- **`_find_nth` is `findNth`** on the effective codes: at every group the translated loop's `out` entry is the
model's, and it does not trip its `assert` (the error flag stays false) -/
theorem find_nth_eq (k : Kind) (codes : List Int) (msk : List Bool) (masked : Bool) (n : Int) (ng ml : Int)
    (hlen : (codes.length : Int) < 2 ^ 63) (g : Int) (hg : 0 ≤ g) :
    let r := find_nth k codes.length (arrOf codes 0) ng n masked ml (arrOf msk true)
    r.1 g = (findNth 64 (effCodes masked codes msk) n g).out ∧
      (r.2 = true → ∃ g' : Int, 0 ≤ g' ∧ (findNth 64 (effCodes masked codes msk) n g').failed = true) := by
  intro r
  -- one statement for both scan directions
  have key : ∀ (n' : Int) (is : List Nat), (∀ i ∈ is, i < codes.length) → is.length ≤ codes.length →
      NthRel (0 + is.length)
        ((is.map (fun i : Nat => (i : Int))).foldl
          (find_nth_loop1_step k codes.length (arrOf codes 0) n' ml masked (arrOf msk true) masked ng ng)
          ⟨fun _ => -1, fun _ => 0, false⟩)
        ((is.map fun i => ((if masked && !(msk.getD i true) then (-1 : Int) else codes.getD i 0), i)).foldl
          (gstep (nthStep 64 n')) (fun _ => nthInit)) := by
    intro n' is his hl
    have h := fold_rel_map_cnt
      (fun c (s : Find_nth_loop1St) (t : Int → NthSt) => c ≤ codes.length → NthRel c s t)
      (fun _ : Nat => True) (fun i : Nat => (i : Int))
      (fun i => ((if masked && !(msk.getD i true) then (-1 : Int) else codes.getD i 0), i))
      (find_nth_loop1_step k codes.length (arrOf codes 0) n' ml masked (arrOf msk true) masked ng ng)
      (gstep (nthStep 64 n'))
      (by
        intro c s t i _ hr hc1
        exact nth_step_rel k codes msk masked n' ng ml c (by omega) s t i (hr (by omega)))
      is 0 ⟨fun _ => -1, fun _ => 0, false⟩ (fun _ => nthInit) (fun _ _ => trivial)
      (by
        intro _
        refine ⟨fun g _ => ?_, by simp⟩
        simp [nthInit])
    exact h (by omega)
  have hz := effCodes_zipIdx masked codes msk
  by_cases hn : 0 ≤ n
  · have hk := key n (List.range codes.length) (by intro i hi; simpa using hi) (by simp)
    have hge : n ≥ 0 := hn
    simp only [r, find_nth, findNth, scanRows, hz, groupFold, hn, hge, decide_true, if_true, rangeI_natCast]
    obtain ⟨h1, h2⟩ := hk
    exact ⟨(h1 g hg).1, h2⟩
  · have hk := key (-n - 1) (List.range codes.length).reverse (by intro i hi; simpa using hi) (by simp)
    have hge : ¬ n ≥ 0 := hn
    simp only [r, find_nth, findNth, scanRows, hz, groupFold, hn, hge, decide_false, if_false, rangeI_natCast,
      Bool.false_eq_true, ← List.map_reverse]
    obtain ⟨h1, h2⟩ := hk
    exact ⟨(h1 g hg).1, h2⟩

/-- with the counter theorems of C15 (`nth_eq_spec`: the model never trips the assertion): the translated loop
returns exactly the specified row of every group and its error flag stays false -/
theorem find_nth_eq_spec (k : Kind) (codes : List Int) (msk : List Bool) (masked : Bool) (n : Int) (ng ml : Int)
    (hlen : (codes.length : Int) < 2 ^ 63)
    (hmodel : ∀ g : Int, 0 ≤ g → (findNth 64 (effCodes masked codes msk) n g).out = specNth (effCodes masked codes msk) n g ∧
      (findNth 64 (effCodes masked codes msk) n g).failed = false)
    (g : Int) (hg : 0 ≤ g) :
    let r := find_nth k codes.length (arrOf codes 0) ng n masked ml (arrOf msk true)
    r.1 g = specNth (effCodes masked codes msk) n g ∧ r.2 = false := by
  intro r
  have h := find_nth_eq k codes msk masked n ng ml hlen g hg
  refine ⟨h.1.trans (hmodel g hg).1, ?_⟩
  cases hr : r.2 with
  | false => rfl
  | true =>
    obtain ⟨g', hg', hf⟩ := h.2 hr
    rw [(hmodel g' hg').2] at hf
    cases hf

end GV.LoopBridge
