import GroupbyVerif.LoopBridge.Basic
import GroupbyVerif.Generated.Loops

/-!
# The null test the translated loops use is the source's `is_null` overload

The generated loops call the hand-written `isNull` (`Model/Val.lean`).  `Generated.Loops.is_null_src` is the
`@overload(is_null)` dispatch of `util.py` as the translator reads it on every run; on every well-formed cell the two
agree, so a change of the overload (another sentinel, a null for narrow or unsigned integers, ...) breaks this theorem.
-/

namespace GV.LoopBridge
open GV GV.Generated.Loops

theorem is_null_src_eq (k : Kind) (v : Val) (h : WF k v) : is_null_src k v = isNull k v := by
  cases k with
  | f => cases v <;> rfl
  | b => cases v <;> rfl
  | i w =>
    cases v with
    | nan => exact absurd h (by simp [WF])
    | num n =>
      by_cases hw : w = 64
      · subst hw
        simp only [is_null_src, isNull, Val.eqF, minInt64, Bool.and_self]
        by_cases e : n = -9223372036854775808 <;> simp [e]
      · have : is_null_src (.i w) (.num n) = Val.eqF (.num n) (.num (-9223372036854775808)) := by
          unfold is_null_src
          split
          · rename_i heq; cases heq
          · rename_i heq; cases heq
          · rename_i heq; cases heq; exact absurd rfl hw
          · rfl
        rw [this]
        simp only [isNull, Val.eqF, minInt64]
        by_cases e : n = -9223372036854775808 <;> simp [e]
  | u w =>
    cases v with
    | nan => exact absurd h (by simp [WF])
    | num n =>
      simp only [WF] at h
      have : is_null_src (.u w) (.num n) = Val.eqF (.num n) (.num (-9223372036854775808)) := by
        unfold is_null_src; rfl
      rw [this]
      simp only [isNull, Val.eqF]
      simp; omega

end GV.LoopBridge
