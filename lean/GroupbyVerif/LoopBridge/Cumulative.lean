import GroupbyVerif.LoopBridge.Basic
import GroupbyVerif.Generated.Loops
import GroupbyVerif.Model.Cumulative

/-!
# Bridge: the translated `_cumulative_reduce` is `cumGo` (`Model/Cumulative.lean`)

The source keeps no running value per group: it remembers the *position* of the group's previous accepted row
(`group_last_seen`, `-1` at first) and reads the running value back from the output array at that position -
`target[-1]`, i.e. the last cell of the output, on a group's first row.  The model carries the running partial
per group.  The invariant `CumInv` is what makes the two the same: cells at or after the current row still hold the
initial value (so `target[-1]` is the initial value as long as a row remains), and the cell at a group's
`group_last_seen` holds that group's running value (cells are written only in their own iteration).
The `uint32` count array wraps in the translation; below `2^32` rows the wrap is the identity for every reducer whose
count grows by at most one per row (`RedCountOK`, proved for all the generated reducers in `Bridge`).
-/

namespace GV.LoopBridge
open GV GV.Generated.Loops

/-- a reducer's count never decreases and grows by at most one -/
def RedCountOK (red : Red) : Prop := ∀ a v c, (red a v c).2 = c ∨ (red a v c).2 = c + 1

def CumInv (init : Val) (t : Nat) (st : Cumulative_reduce_loop2St) (m : Int → Partial) : Prop :=
  st.i = (t : Int) - 1 ∧
  (∀ j : Int, (t : Int) ≤ j → st.target j = init) ∧
  (∀ g : Int, 0 ≤ g →
     st.group_count g = (m g).2 ∧ 0 ≤ (m g).2 ∧ (m g).2 ≤ t ∧
     ((st.group_last_seen g = -1 ∧ m g = (init, 0)) ∨
      (0 ≤ st.group_last_seen g ∧ st.group_last_seen g < t ∧ st.target (st.group_last_seen g) = (m g).1)))

/-- the value the kernel leaves in an output cell: the model's output, or the untouched initial value at a null-key row -/
def outAt (init : Val) (l : List (Option Val)) (j : Nat) : Val :=
  match l[j]? with
  | some (some v) => v
  | _ => init

theorem wrapU_id (w : Nat) (x : Int) (h0 : 0 ≤ x) (h1 : x < 2 ^ w) : wrapU w x = x := by
  unfold wrapU
  exact Int.emod_eq_of_lt h0 h1

/-- one iteration: the invariant moves from `t` to `t + 1`, earlier cells are untouched, the cell of row `t` holds
the model's output for that row -/
theorem cum_step (k : Kind) (red : Red) (hred : RedCountOK red) (init : Val) (n : Nat) (hn : (n : Int) < 2 ^ 32)
    (gk : Int → Int) (masked : Bool) (mk : Int → Bool) (ng ml gkl : Int) (t : Nat) (ht : t < n)
    (st : Cumulative_reduce_loop2St) (m : Int → Partial) (r : CRow)
    (hcode : gk (t : Int) = r.code) (hsel : (masked && !mk (t : Int)) = !r.sel) (h : CumInv init t st m) :
    let st' := cumulative_reduce_loop2_step k gkl gk red ml masked mk masked n ng ng st r.val
    let m' := if r.code < 0 then m else if !r.sel then m else
      upd m r.code (red (m r.code).1 r.val (m r.code).2)
    CumInv init (t + 1) st' m' ∧ (∀ j : Int, j < t → st'.target j = st.target j) ∧
      st'.target (t : Int) = (if r.code < 0 then init else if !r.sel then (m r.code).1
        else (red (m r.code).1 r.val (m r.code).2).1) ∧
      st'.has_null_key = (st.has_null_key || decide (r.code < 0)) := by
  obtain ⟨si, sh, stg, sgc, sgl⟩ := st
  obtain ⟨hi, hun, hgr⟩ := h
  simp only at hi hun hgr
  subst hi
  intro st' m'
  have e1 : (t : Int) - 1 + 1 = (t : Int) := by omega
  simp only [st', m', cumulative_reduce_loop2_step, e1, normI_natCast, hcode, hsel]
  by_cases hk : r.code < 0
  · -- null key
    simp only [hk, decide_true, if_true, Bool.or_true, and_true]
    unfold CumInv; dsimp only
    refine ⟨⟨by omega, fun j hj => hun j (by omega), fun g hg => ?_⟩, fun _ _ => trivial, hun _ (by omega)⟩
    obtain ⟨a, b, c, d⟩ := hgr g hg
    refine ⟨a, b, by omega, ?_⟩
    rcases d with d | ⟨d1, d2, d3⟩
    · exact Or.inl d
    · exact Or.inr ⟨d1, by omega, d3⟩
  · have hk0 : 0 ≤ r.code := by omega
    simp only [hk, decide_false, Bool.false_eq_true, if_false, Bool.or_false, normI_nonneg _ _ hk0]
    obtain ⟨ka, kb, kc, kd⟩ := hgr _ hk0
    -- the value read back from the output array is the group's running value
    have hread : stg (normI n (sgl r.code)) = (m r.code).1 := by
      rcases kd with ⟨d1, d2⟩ | ⟨d1, d2, d3⟩
      · rw [d1, normI_neg _ _ (by omega), d2]
        exact hun _ (by omega)
      · rw [normI_nonneg _ _ d1]; exact d3
    by_cases hs : r.sel = true
    · -- accepted row
      simp only [hs, Bool.not_true, Bool.false_eq_true, if_false, hread, ka]
      have hcnt := hred (m r.code).1 r.val (m r.code).2
      have hw : wrapU 32 (red (m r.code).1 r.val (m r.code).2).2 = (red (m r.code).1 r.val (m r.code).2).2 :=
        wrapU_id 32 _ (by omega) (by omega)
      unfold CumInv; dsimp only
      refine ⟨⟨by omega, fun j hj => ?_, fun g hg => ?_⟩, fun j hj => ?_, by simp [aset_apply], trivial⟩
      · simp only [aset_apply]
        have : ¬ j = (t : Int) := by omega
        simp only [this, if_false]
        exact hun j (by omega)
      · obtain ⟨a, b, c, d⟩ := hgr g hg
        by_cases e : g = r.code
        · subst e
          simp only [upd, if_true, aset_apply, hw]
          exact ⟨trivial, by omega, by omega, Or.inr ⟨by omega, by omega, trivial⟩⟩
        · simp only [upd, e, if_false, aset_apply]
          refine ⟨a, b, by omega, ?_⟩
          rcases d with d | ⟨d1, d2, d3⟩
          · exact Or.inl d
          · refine Or.inr ⟨d1, by omega, ?_⟩
            have : ¬ sgl g = (t : Int) := by omega
            simp only [this, if_false]; exact d3
      · simp only [aset_apply]
        have : ¬ j = (t : Int) := by omega
        simp only [this, if_false]
    · -- masked row: the running value is passed through
      have hs' : r.sel = false := by cases h' : r.sel <;> simp_all
      simp only [hs', Bool.not_false, if_true]
      have htgt : (if decide (sgl r.code ≥ 0) = true then aset stg (t : Int) (stg (normI n (sgl r.code))) else stg) (t : Int)
          = (m r.code).1 := by
        by_cases hl : sgl r.code ≥ 0
        · simp [hl, aset_apply, hread]
        · simp only [hl, decide_false, Bool.false_eq_true, if_false]
          rcases kd with ⟨d1, d2⟩ | ⟨d1, d2, d3⟩
          · rw [d2]; exact hun _ (by omega)
          · omega
      have hother : ∀ j : Int, j ≠ (t : Int) →
          (if decide (sgl r.code ≥ 0) = true then aset stg (t : Int) (stg (normI n (sgl r.code))) else stg) j = stg j := by
        intro j hj
        by_cases hl : sgl r.code ≥ 0 <;> simp [hl, aset_apply, hj]
      unfold CumInv; dsimp only
      refine ⟨⟨by omega, fun j hj => ?_, fun g hg => ?_⟩, fun j hj => hother j (by omega), htgt, trivial⟩
      · rw [hother j (by omega)]; exact hun j (by omega)
      · obtain ⟨a, b, c, d⟩ := hgr g hg
        refine ⟨a, b, by omega, ?_⟩
        rcases d with d | ⟨d1, d2, d3⟩
        · exact Or.inl d
        · refine Or.inr ⟨d1, by omega, ?_⟩
          rw [hother _ (by omega)]; exact d3

theorem cumGo_length (red : Red) (m : Int → Partial) (rows : List CRow) : (cumGo red m rows).length = rows.length := by
  induction rows generalizing m with
  | nil => simp [cumGo]
  | cons r rs ih =>
    simp only [cumGo]
    split
    · simp [ih]
    · split <;> simp [ih]

/-- the whole loop from row `t` on -/
theorem cum_loop (k : Kind) (red : Red) (hred : RedCountOK red) (init : Val) (n : Nat) (hn : (n : Int) < 2 ^ 32)
    (gk : Int → Int) (masked : Bool) (mk : Int → Bool) (ng ml gkl : Int) :
    ∀ (rest : List CRow) (t : Nat) (st : Cumulative_reduce_loop2St) (m : Int → Partial), t + rest.length ≤ n →
      (∀ j (hj : j < rest.length), gk ((t + j : Nat) : Int) = rest[j].code ∧
        (masked && !mk ((t + j : Nat) : Int)) = !rest[j].sel) →
      CumInv init t st m →
      let fin := (rest.map (·.val)).foldl (cumulative_reduce_loop2_step k gkl gk red ml masked mk masked n ng ng) st
      (∀ j : Int, j < t → fin.target j = st.target j) ∧
      (∀ j, j < rest.length → fin.target ((t + j : Nat) : Int) = outAt init (cumGo red m rest) j) ∧
      fin.has_null_key = (st.has_null_key || rest.any (fun r => decide (r.code < 0))) := by
  intro rest
  induction rest with
  | nil => intro t st m _ _ _; simp
  | cons r rs ih =>
    intro t st m hlen harr hinv fin
    have h0 := harr 0 (by simp)
    simp only [Nat.add_zero, List.getElem_cons_zero] at h0
    have hstep := cum_step k red hred init n hn gk masked mk ng ml gkl t (by simp at hlen; omega) st m r h0.1 h0.2 hinv
    obtain ⟨hinv', hold, hcell, hnull⟩ := hstep
    have hlen' : t + 1 + rs.length ≤ n := by simp at hlen; omega
    have harr' : ∀ j (hj : j < rs.length), gk ((t + 1 + j : Nat) : Int) = rs[j].code ∧
        (masked && !mk ((t + 1 + j : Nat) : Int)) = !rs[j].sel := by
      intro j hj
      have := harr (j + 1) (by simp; omega)
      have e : t + (j + 1) = t + 1 + j := by omega
      simpa [e] using this
    have hrec := ih (t + 1) _ _ hlen' harr' hinv'
    obtain ⟨r1, r2, r3⟩ := hrec
    simp only [fin, List.map_cons, List.foldl_cons]
    refine ⟨fun j hj => ?_, fun j hj => ?_, ?_⟩
    · rw [r1 j (by omega)]; exact hold j hj
    · cases j with
      | zero =>
        simp only [Nat.add_zero]
        rw [r1 _ (by omega), hcell]
        simp only [cumGo, outAt]
        by_cases hk : r.code < 0
        · simp [hk]
        · by_cases hs : r.sel = true
          · simp [hk, hs]
          · have hs' : r.sel = false := by cases h' : r.sel <;> simp_all
            simp [hk, hs']
      | succ j =>
        have e : t + (j + 1) = t + 1 + j := by omega
        rw [e, r2 j (by simpa using hj)]
        simp only [cumGo, outAt]
        by_cases hk : r.code < 0
        · simp [hk]
        · by_cases hs : r.sel = true
          · simp [hk, hs]
          · have hs' : r.sel = false := by cases h' : r.sel <;> simp_all
            simp [hk, hs']
    · rw [r3, hnull]
      simp [Bool.or_assoc]

/-! ### the nested loop over the value chunks is one loop over their concatenation -/

def to2 (s : Cumulative_reduce_loop1St) : Cumulative_reduce_loop2St :=
  ⟨s.i, s.has_null_key, s.target, s.group_count, s.group_last_seen⟩
def from2 (s : Cumulative_reduce_loop2St) : Cumulative_reduce_loop1St :=
  ⟨s.i, s.target, s.group_count, s.group_last_seen, s.has_null_key⟩

theorem chunks_fold (k : Kind) (red : Red) (gk : Int → Int) (masked : Bool) (mk : Int → Bool) (n ng ml gkl : Int)
    (chunks : List (List Val)) (st : Cumulative_reduce_loop1St) :
    chunks.foldl (cumulative_reduce_loop1_step k gkl gk red ml masked mk masked n ng ng) st =
      from2 (chunks.flatten.foldl (cumulative_reduce_loop2_step k gkl gk red ml masked mk masked n ng ng) (to2 st)) := by
  induction chunks generalizing st with
  | nil => rfl
  | cons c cs ih =>
    simp only [List.foldl_cons, List.flatten_cons, List.foldl_append]
    rw [ih]
    rfl

/-- the rows the kernel sees: code, value and whether the mask selects the row -/
def cumRows (codes : List Int) (vals : List Val) (masked : Bool) (msk : List Bool) : List CRow :=
  (List.range codes.length).map fun i => ⟨codes.getD i 0, vals.getD i .nan, !(masked && !(msk.getD i true))⟩

/-- **`_cumulative_reduce` is `cumulativeReduce`**: for any chunking of the values, below `2^32` rows, every output
cell of a row with a non-null key holds the model's output for that row, the cells of null-key rows keep the initial
value of the target, and the null-key flag is raised iff some code is negative -/
theorem cumulative_reduce_eq (k : Kind) (red : Red) (hred : RedCountOK red) (init : Val) (codes : List Int)
    (chunks : List (List Val)) (msk : List Bool) (masked : Bool) (ng ml : Int)
    (hlen : codes.length = chunks.flatten.length) (hn : (codes.length : Int) < 2 ^ 32) :
    let rows := cumRows codes chunks.flatten masked msk
    let r := cumulative_reduce k codes.length (arrOf codes 0) chunks red ng codes.length (fun _ => init) masked ml
      (arrOf msk true)
    r.2 = false ∧ r.1.2 = rows.any (fun r => decide (r.code < 0)) ∧
      ∀ j, j < codes.length → r.1.1 (j : Int) = outAt init (cumulativeReduce red init rows) j := by
  intro rows r
  have hvals : chunks.flatten = rows.map (·.val) := by
    simp only [rows, cumRows, List.map_map]
    have := list_eq_map_range chunks.flatten Val.nan
    rw [← hlen] at this
    exact this
  have hrl : rows.length = codes.length := by simp [rows, cumRows]
  have h0 : CumInv init 0 (to2 ⟨-1, fun _ => init, fun _ => 0, fun _ => -1, false⟩) (fun _ => (init, 0)) := by
    unfold CumInv to2; dsimp only
    exact ⟨by omega, fun _ _ => rfl, fun g _ => ⟨rfl, by omega, by omega, Or.inl ⟨rfl, rfl⟩⟩⟩
  have hl := cum_loop k red hred init codes.length hn (arrOf codes 0) masked (arrOf msk true) ng ml codes.length
    rows 0 _ _ (by omega)
    (by
      intro j hj
      have hj' : j < codes.length := by omega
      simp [rows, cumRows, hj'])
    h0
  obtain ⟨_, l2, l3⟩ := hl
  refine ⟨by simp [r, cumulative_reduce], ?_, ?_⟩
  · simp only [r, cumulative_reduce, chunks_fold, hvals, from2]
    rw [l3]; simp [to2]
  · intro j hj
    simp only [r, cumulative_reduce, chunks_fold, hvals, from2, cumulativeReduce]
    have := l2 j (by omega)
    simpa using this

end GV.LoopBridge
