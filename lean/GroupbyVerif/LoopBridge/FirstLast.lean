import GroupbyVerif.LoopBridge.Basic
import GroupbyVerif.Generated.Loops
import GroupbyVerif.Lemmas.RowSel

/-!
# Bridge: the translated `_find_first_or_last_n` is `findFirstOrLastN` (`Model/RowSel.lean`)

The source keeps an `(ngroups, n)` matrix `out` and a counter per group; the model keeps, per group, the list of the
`n` slots.  `rowOf out g n` reads one matrix row as a list.
-/

namespace GV.LoopBridge
open GV GV.Generated.Loops

/-- row `g` of an `(·, n)` matrix as a list -/
def rowOf (a : Int → Int → Int) (g : Int) (n : Nat) : List Int := (List.range n).map fun (j : Nat) => a g (j : Int)

def FLRel (n : Nat) (st : Find_first_or_last_n_loop1St) (m : Int → FLSt) : Prop :=
  ∀ g : Int, 0 ≤ g → (m g).slots = rowOf st.out' g n ∧ st.seen g = (m g).seen ∧ 0 ≤ (m g).seen ∧ (m g).seen ≤ n

theorem rowOf_aset2_same (a : Int → Int → Int) (g : Int) (n : Nat) (j : Nat) (hj : j < n) (x : Int) :
    rowOf (aset2 a g (j : Int) x) g n = (rowOf a g n).set j x := by
  apply List.ext_getElem
  · simp [rowOf]
  · intro p h1 h2
    simp only [rowOf, List.length_map, List.length_range] at h1
    simp only [rowOf, List.getElem_map, List.getElem_range, aset2, true_and, List.getElem_set]
    by_cases e : p = j
    · subst e; simp
    · have : ¬ ((p : Int) = (j : Int)) := by omega
      have e' : ¬ j = p := fun h => e h.symm
      simp [this, e']

theorem rowOf_aset2_other (a : Int → Int → Int) (g g' : Int) (n : Nat) (j : Int) (x : Int) (h : g' ≠ g) :
    rowOf (aset2 a g j x) g' n = rowOf a g' n := by
  simp [rowOf, aset2, h]

theorem fl_step_rel (k : Kind) (codes : List Int) (msk : List Bool) (masked : Bool) (n : Nat) (hn : (n : Int) < 2 ^ 63)
    (ng ml : Int) (st : Find_first_or_last_n_loop1St) (m : Int → FLSt) (i : Nat) (h : FLRel n st m) :
    FLRel n
      (find_first_or_last_n_loop1_step k codes.length (arrOf codes 0) n ml masked (arrOf msk true) masked ng n ng st
        (i : Int))
      (gstep (flStep 64 n) m ((if masked && !(msk.getD i true) then -1 else codes.getD i 0), i)) := by
  obtain ⟨so, ss⟩ := st
  simp only [FLRel] at h
  simp only [find_first_or_last_n_loop1_step, normI_natCast, arrOf_natCast]
  generalize codes.getD i 0 = key
  generalize msk.getD i true = mb
  by_cases hk : key < 0
  · have he : (if masked && !mb then (-1 : Int) else key) < 0 := by split <;> omega
    simp only [hk, decide_true, if_true, gstep, he]
    exact h
  · simp only [hk, decide_false, Bool.false_eq_true, if_false]
    by_cases hm : (masked && !mb) = true
    · simp only [hm, if_true, gstep]
      simp only [show ((-1 : Int) < 0) from by omega, if_true]
      exact h
    · simp only [hm, Bool.false_eq_true, if_false, gstep, hk]
      have hk0 : 0 ≤ key := by omega
      rw [normI_nonneg _ _ hk0]
      obtain ⟨hsl, hs, hs0, hsn⟩ := h _ hk0
      simp only [hs]
      by_cases hlt : (m key).seen < n
      · -- the group still has a free slot
        have hw : wrapS 64 ((m key).seen + 1) = (m key).seen + 1 :=
          wrapS_id 64 (by omega) _ (by omega) (by simp only [show (64 - 1 : Nat) = 63 from rfl]; omega)
        have hj : ((m key).seen.toNat : Int) = (m key).seen := by omega
        have hjn : (m key).seen.toNat < n := by omega
        rw [normI_nonneg _ _ hs0]
        simp only [hlt, decide_true, if_true]
        intro g h0
        obtain ⟨gsl, gs, gs0, gsn⟩ := h g h0
        by_cases e : g = key
        · subst e
          simp only [upd, if_true, flStep, hlt, hw, aset_apply]
          refine ⟨?_, trivial, by omega, by omega⟩
          have hlen : (m g).slots.length = n := by rw [hsl]; simp [rowOf]
          simp only [setSlot, normIdx, hlen]
          have h1 : ¬ (m g).seen < 0 := by omega
          simp only [h1, if_false]
          rw [← hj, rowOf_aset2_same _ _ _ _ hjn, hsl]
          have : ((((m g).seen.toNat : Nat) : Int)).toNat = (m g).seen.toNat := by omega
          rw [this]
        · simp only [upd, e, if_false, aset_apply]
          exact ⟨by rw [rowOf_aset2_other _ _ _ _ _ _ e]; exact gsl, gs, gs0, gsn⟩
      · simp only [hlt, decide_false, Bool.false_eq_true, if_false]
        intro g h0
        obtain ⟨gsl, gs, gs0, gsn⟩ := h g h0
        by_cases e : g = key
        · subst e
          simp only [upd, if_true, flStep, hlt, if_false]
          exact ⟨gsl, gs, gs0, gsn⟩
        · simp only [upd, e, if_false]
          exact ⟨gsl, gs, gs0, gsn⟩

theorem range_reverse_eq (n : Nat) : (List.range n).reverse = (List.range n).map fun j => n - 1 - j := by
  apply List.ext_getElem
  · simp
  · intro p h1 h2
    simp at h1
    simp [List.getElem_reverse]

/-- **`_find_first_or_last_n` is `findFirstOrLastN`** on the effective codes: row `g` of the returned matrix (after
the column reversal of the backward scan) is the model's slot list of group `g` -/
theorem find_first_or_last_n_eq (k : Kind) (codes : List Int) (msk : List Bool) (masked : Bool) (n : Nat)
    (hn : (n : Int) < 2 ^ 63) (ng ml : Int) (forward : Bool) (g : Int) (hg : 0 ≤ g) :
    let r := find_first_or_last_n k codes.length (arrOf codes 0) ng n masked ml (arrOf msk true) forward
    rowOf r.1 g n = findFirstOrLastN 64 (effCodes masked codes msk) n forward g ∧ r.2 = false := by
  intro r
  have key : ∀ (is : List Nat),
      FLRel n
        ((is.map (fun i : Nat => (i : Int))).foldl
          (find_first_or_last_n_loop1_step k codes.length (arrOf codes 0) n ml masked (arrOf msk true) masked ng n ng)
          ⟨fun _ _ => -1, fun _ => 0⟩)
        ((is.map fun i => ((if masked && !(msk.getD i true) then (-1 : Int) else codes.getD i 0), i)).foldl
          (gstep (flStep 64 n)) (fun _ => flInit n)) := by
    intro is
    exact fold_rel_map (FLRel n) (fun _ : Nat => True) (fun i : Nat => (i : Int))
      (fun i => ((if masked && !(msk.getD i true) then (-1 : Int) else codes.getD i 0), i)) _ _
      (fun s t i _ hr => fl_step_rel k codes msk masked n hn ng ml s t i hr)
      is _ _ (fun _ _ => trivial)
      (by
        intro g _
        refine ⟨?_, rfl, by simp [flInit], by simp [flInit]⟩
        apply List.ext_getElem <;> simp [flInit, rowOf])
  have hz := effCodes_zipIdx masked codes msk
  refine ⟨?_, by simp [r, find_first_or_last_n]⟩
  cases forward with
  | true =>
    have hk := key (List.range codes.length) g hg
    simp only [r, find_first_or_last_n, findFirstOrLastN, scanRows, hz, groupFold, if_true, rangeI_natCast,
      Bool.not_true, Bool.false_eq_true, if_false]
    exact hk.1.symm
  | false =>
    have hk := key (List.range codes.length).reverse g hg
    simp only [r, find_first_or_last_n, findFirstOrLastN, scanRows, hz, groupFold, if_false, rangeI_natCast,
      Bool.not_false, if_true, Bool.false_eq_true, ← List.map_reverse]
    rw [hk.1]
    simp only [rowOf, ← List.map_reverse, range_reverse_eq, List.map_map]
    apply List.map_congr_left
    intro j hj
    have : j < n := by simpa using hj
    simp only [Function.comp]
    congr 1
    omega

end GV.LoopBridge
