import GroupbyVerif.LoopBridge.Basic
import GroupbyVerif.Generated.Loops
import GroupbyVerif.Model.Nearby

/-!
# Bridge: the translated `group_nearby_members` is the model of `Model/Nearby.lean`

With every code below `n_groups` the index normalisation of the three per-group arrays is the identity at a
non-negative code, so the translated step and the model step update the same functions; a negative code leaves the
whole state alone (the `continue` sits before any read).  `np.empty` is translated as an array of zeros: `last_seen`
is only read after `seen[key]` was set, and the model reads it in the same place, so the content does not matter.
-/

namespace GV.LoopBridge
open GV GV.Generated.Loops

/-- the translated state holds the model state and the outputs written so far (`-1` beyond) -/
def NearbyRel (t : Nat) (st : Group_nearby_members_loop1St) (m : NearbySt × List Int) : Prop :=
  st.seen = m.1.seen ∧ st.group_counter = m.1.counter ∧ st.group_tracker = m.1.tracker ∧ st.last_seen = m.1.last ∧
    m.2.length = t ∧ ∀ j : Nat, st.out' (j : Int) = m.2.getD j (-1)

theorem nearby_step_rel (k : Kind) (codes : List Int) (vals : List Val) (maxDiff : Val) (n : Int)
    (hc : ∀ c ∈ codes, c < n) (t : Nat) (ht : t < codes.length)
    (st : Group_nearby_members_loop1St) (m : NearbySt × List Int) (h : NearbyRel t st m) :
    NearbyRel (t + 1)
      (group_nearby_members_loop1_step k codes.length (arrOf codes 0) vals.length (arrOf vals .nan) maxDiff n n n
        codes.length st (t : Int))
      ((nearbyStep maxDiff m.1 (codes.getD t 0, vals.getD t .nan)).1,
        m.2 ++ [(nearbyStep maxDiff m.1 (codes.getD t 0, vals.getD t .nan)).2]) := by
  obtain ⟨sseen, scnt, str, slast, sout⟩ := st
  obtain ⟨⟨mseen, mcnt, mtr, mlast⟩, mo⟩ := m
  obtain ⟨h1, h2, h3, h4, h5, h6⟩ := h
  simp only at h1 h2 h3 h4 h5 h6
  subst h1 h2 h3 h4
  have hkn : codes.getD t 0 < n := by
    rw [List.getD_eq_getElem?_getD, List.getElem?_eq_getElem ht]
    exact hc _ (List.getElem_mem ht)
  simp only [group_nearby_members_loop1_step, normI_natCast, arrOf_natCast, nearbyStep]
  generalize codes.getD t 0 = key at hkn
  generalize vals.getD t Val.nan = v
  have hout : ∀ (x : Int) (j : Nat), aset sout (t : Int) x (j : Int) = (mo ++ [x]).getD j (-1) := by
    intro x j
    rw [aset_apply]
    by_cases e : j = t
    · subst e
      simp [List.getD_eq_getElem?_getD, h5]
    · have : ((j : Int) = (t : Int)) = False := by simp; omega
      simp only [this, if_false, h6 j, List.getD_eq_getElem?_getD]
      rcases Nat.lt_or_ge j t with hlt | hge
      · rw [List.getElem?_append_left (by omega)]
      · rw [List.getElem?_eq_none_iff.mpr (by omega), List.getElem?_eq_none_iff.mpr (by simp; omega)]
  by_cases hk : key < 0
  · simp only [hk, decide_true, if_true]
    refine ⟨rfl, rfl, rfl, rfl, by simp [h5], ?_⟩
    intro j
    simp only [List.getD_eq_getElem?_getD, h6 j]
    rcases Nat.lt_or_ge j t with hlt | hge
    · rw [List.getElem?_append_left (by omega)]
    · rw [List.getElem?_eq_none_iff.mpr (by omega)]
      by_cases e : j = t
      · subst e; simp [h5]
      · rw [List.getElem?_eq_none_iff.mpr (by simp; omega)]
  · have hk0 : 0 ≤ key := by omega
    simp only [hk, decide_false, Bool.false_eq_true, if_false, normI_nonneg _ _ hk0, nearbyFresh]
    rcases Bool.eq_false_or_eq_true (sseen key) with hs | hs
    · -- seen before: the distance decides
      rcases Bool.eq_false_or_eq_true (Val.gt (Val.abs (Val.sub v (slast key))) maxDiff) with hf | hf <;>
        simp only [hs, hf, Bool.not_true, Bool.not_false, Bool.false_eq_true, if_true, if_false] <;>
        exact ⟨rfl, rfl, rfl, rfl, by simp [h5], hout _⟩
    · simp only [hs, Bool.not_false, if_true]
      exact ⟨rfl, rfl, rfl, rfl, by simp [h5], hout _⟩

/-- **`group_nearby_members` is `nearby`**: every output cell is the model's output for that row, no error is
flagged; needs every code below `n_groups` (the factorization's contract) -/
theorem group_nearby_members_eq (k : Kind) (codes : List Int) (vals : List Val) (maxDiff : Val) (n : Int)
    (hlen : codes.length = vals.length) (hc : ∀ c ∈ codes, c < n) :
    let r := group_nearby_members k codes.length (arrOf codes 0) vals.length (arrOf vals .nan) maxDiff n
    r.2 = false ∧ ∀ j : Nat, j < codes.length → r.1 (j : Int) = (nearby maxDiff (codes.zip vals)).getD j (-1) := by
  intro r
  have key : ∀ t : Nat, t ≤ codes.length →
      NearbyRel t
        (((List.range t).map (fun i : Nat => (i : Int))).foldl
          (group_nearby_members_loop1_step k codes.length (arrOf codes 0) vals.length (arrOf vals .nan) maxDiff n n n
            codes.length) ⟨fun _ => false, -1, fun _ => -1, fun _ => .num 0, fun _ => -1⟩)
        (nearbyRun maxDiff ((codes.zip vals).take t)) := by
    intro t
    induction t with
    | zero =>
      intro _
      simp only [List.range_zero, List.map_nil, List.foldl_nil, List.take_zero, nearbyRun, nearbyInit]
      exact ⟨rfl, rfl, rfl, rfl, rfl, fun j => by simp⟩
    | succ t ih =>
      intro ht
      have hlt : t < (codes.zip vals).length := by simp [List.length_zip, ← hlen]; omega
      rw [List.range_succ, List.map_append, List.foldl_append, List.take_succ_eq_append_getElem hlt]
      simp only [List.map_cons, List.map_nil, List.foldl_cons, List.foldl_nil, nearbyRun, List.foldl_append]
      have hrow : (codes.zip vals)[t] = (codes.getD t 0, vals.getD t .nan) := by
        simp [List.getElem_zip, List.getD_eq_getElem?_getD, List.getElem?_eq_getElem (show t < codes.length by omega),
          List.getElem?_eq_getElem (show t < vals.length by omega)]
      rw [hrow]
      exact nearby_step_rel k codes vals maxDiff n hc t (by omega) _ _ (ih (by omega))
  have h := key codes.length (Nat.le_refl _)
  have htake : (codes.zip vals).take codes.length = codes.zip vals := by
    apply List.take_of_length_le; simp [List.length_zip, ← hlen]
  rw [htake] at h
  obtain ⟨_, _, _, _, _, h6⟩ := h
  refine ⟨rfl, fun j _ => ?_⟩
  simp only [r, group_nearby_members, rangeI_natCast, nearby]
  exact h6 j

end GV.LoopBridge
