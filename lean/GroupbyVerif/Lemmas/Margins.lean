import GroupbyVerif.Model.Margins
import GroupbyVerif.Lemmas.Factorize

/-!
# Lemmas for the margins model: re-aggregating per-group results = aggregating the rows
-/

namespace GV

section
variable {κ M : Type} [DecidableEq κ]

/-- the laws the aggregation has to satisfy: a commutative monoid -/
structure AggLaws (op : M → M → M) (e : M) : Prop where
  assoc : ∀ a b c, op (op a b) c = op a (op b c)
  comm : ∀ a b, op a b = op b a
  unit : ∀ a, op a e = a

variable {op : M → M → M} {e : M}

theorem AggLaws.left_comm (h : AggLaws op e) (a b c : M) : op a (op b c) = op b (op a c) := by
  rw [← h.assoc, h.comm a b, h.assoc]

omit [DecidableEq κ] in
theorem sum_laws : AggLaws (fun a b : Int => a + b) 0 :=
  ⟨fun a b c => Int.add_assoc a b c, fun a b => Int.add_comm a b, fun a => Int.add_zero a⟩

@[simp] theorem aggM_nil : aggM op e [] = e := rfl
@[simp] theorem aggM_cons (x : M) (xs : List M) : aggM op e (x :: xs) = op x (aggM op e xs) := rfl

theorem aggM_singleton (h : AggLaws op e) (x : M) : aggM op e [x] = x := by simp [h.unit]

/-- one label of a duplicate-free list receives an extra value: the total receives it once -/
theorem aggM_indicator {β : Type} [DecidableEq β] (h : AggLaws op e) (k : β) (v : M) (f : β → M)
    (labs : List β) (hnd : labs.Nodup) (hk : k ∈ labs) :
    aggM op e (labs.map fun l => if k = l then op v (f l) else f l) = op v (aggM op e (labs.map f)) := by
  induction labs with
  | nil => simp at hk
  | cons a as ih =>
    have hnd' := List.nodup_cons.mp hnd
    by_cases ha : k = a
    · subst ha
      have hcongr : (as.map fun l => if k = l then op v (f l) else f l) = as.map f := by
        apply List.map_congr_left
        intro l hl
        have : k ≠ l := fun e' => hnd'.1 (e' ▸ hl)
        simp [this]
      simp only [List.map_cons, aggM_cons, if_true, hcongr, h.assoc]
    · have hk' : k ∈ as := by
        cases hk with
        | head => exact absurd rfl ha
        | tail _ h' => exact h'
      simp only [List.map_cons, aggM_cons, ha, if_false, ih hnd'.2 hk']
      exact h.left_comm _ _ _

/-- **partition lemma**: aggregating, over duplicate-free labels, the aggregates of the rows
carrying each label = aggregating the rows whose label is among them -/
theorem aggM_partition {α β : Type} [DecidableEq β] (h : AggLaws op e) (proj : α → β) (val : α → M)
    (labs : List β) (hnd : labs.Nodup) (rows : List α) :
    aggM op e (labs.map fun l => aggM op e ((rows.filter fun r => proj r = l).map val))
      = aggM op e ((rows.filter fun r => proj r ∈ labs).map val) := by
  induction rows with
  | nil =>
    simp only [List.filter_nil, List.map_nil, aggM_nil]
    induction labs with
    | nil => rfl
    | cons a as ih => simp [ih (List.nodup_cons.mp hnd).2, h.unit]
  | cons r rs ih =>
    by_cases hr : proj r ∈ labs
    · have hstep : (labs.map fun l => aggM op e (((r :: rs).filter fun r => proj r = l).map val))
          = labs.map fun l => if proj r = l then
              op (val r) (aggM op e ((rs.filter fun r => proj r = l).map val))
            else aggM op e ((rs.filter fun r => proj r = l).map val) := by
        apply List.map_congr_left
        intro l _
        by_cases hl : proj r = l <;> simp [hl]
      rw [hstep, aggM_indicator h (proj r) (val r) _ labs hnd hr, ih]
      simp [hr]
    · have hstep : (labs.map fun l => aggM op e (((r :: rs).filter fun r => proj r = l).map val))
          = labs.map fun l => aggM op e ((rs.filter fun r => proj r = l).map val) := by
        apply List.map_congr_left
        intro l hl
        have : proj r ≠ l := fun e' => hr (e' ▸ hl)
        simp [this]
      rw [hstep, ih]
      simp [hr]

/-! ### patterns -/

theorem matchesPat_length : ∀ (p : Pat κ) (l : List κ), matchesPat p l = true → p.length = l.length
  | [], [], _ => rfl
  | [], _ :: _, h => by simp [matchesPat] at h
  | none :: ps, [], h => by simp [matchesPat] at h
  | some _ :: ps, [], h => by simp [matchesPat] at h
  | none :: ps, _ :: ls, h => by
    simp only [matchesPat] at h
    simp [matchesPat_length ps ls h]
  | some a :: ps, b :: ls, h => by
    simp only [matchesPat, Bool.and_eq_true] at h
    simp [matchesPat_length ps ls h.2]

/-- a pattern without `'All'` matches exactly its own label -/
theorem matchesPat_map_some : ∀ (l l' : List κ), matchesPat (l.map some) l' = decide (l = l')
  | [], [] => by simp [matchesPat]
  | [], _ :: _ => by simp [matchesPat]
  | _ :: _, [] => by simp [matchesPat]
  | a :: as, b :: bs => by
    simp only [List.map_cons, matchesPat, matchesPat_map_some as bs, List.cons.injEq]
    by_cases h1 : a = b <;> by_cases h2 : as = bs <;> simp [h1, h2]

/-- putting `'All'` at position `i` of a pattern = ignoring position `i` of the label -/
theorem matchesPat_insertIdx : ∀ (i : Nat) (p : Pat κ) (l : List κ), i ≤ p.length → l.length = p.length + 1 →
    matchesPat (p.insertIdx i none) l = matchesPat p (l.eraseIdx i)
  | 0, p, [], _, hl => by simp at hl
  | 0, p, b :: bs, _, _ => by simp [List.insertIdx_zero, matchesPat]
  | i + 1, [], _, hi, _ => by simp at hi
  | i + 1, a :: ps, [], _, hl => by simp at hl
  | i + 1, a :: ps, b :: bs, hi, hl => by
    have hi' : i ≤ ps.length := by simpa using hi
    have hl' : bs.length = ps.length + 1 := by simpa using hl
    have ih := matchesPat_insertIdx i ps bs hi' hl'
    cases a with
    | none => simp [List.insertIdx_succ_cons, matchesPat, ih]
    | some a => simp [List.insertIdx_succ_cons, matchesPat, ih]

/-! ### the building blocks of `add_row_margin` -/

/-- with duplicate-free labels, the rows carrying the label of a given row are that row alone -/
theorem filter_label_eq_self : ∀ (data : List (List κ × M)) (r : List κ × M), r ∈ data → (data.map (·.1)).Nodup →
    data.filter (fun s => decide (r.1 = s.1)) = [r]
  | [], r, hr, _ => by simp at hr
  | d :: ds, r, hr, hnd => by
    have hnd' := List.nodup_cons.mp (by simpa using hnd : (d.1 :: ds.map (·.1)).Nodup)
    by_cases hd : r = d
    · subst hd
      have : ds.filter (fun s => decide (r.1 = s.1)) = [] := by
        rw [List.filter_eq_nil_iff]
        intro s hs
        have : r.1 ≠ s.1 := fun e' => hnd'.1 (e' ▸ List.mem_map_of_mem (f := (·.1)) hs)
        simp [this]
      simp [this]
    · have hr' : r ∈ ds := by
        cases hr with
        | head => exact absurd rfl hd
        | tail _ h' => exact h'
      have hne : r.1 ≠ d.1 := fun e' => hnd'.1 (e' ▸ List.mem_map_of_mem (f := (·.1)) hr')
      simp [hne, filter_label_eq_self ds r hr' hnd'.2]

/-- an ordinary row summarises itself -/
theorem directAgg_plain (h : AggLaws op e) (data : List (List κ × M)) (hnd : (data.map (·.1)).Nodup)
    (r : List κ × M) (hr : r ∈ data) : directAgg op e data (r.1.map some) = r.2 := by
  unfold directAgg
  have : (data.filter fun s => matchesPat (r.1.map some) s.1) = data.filter (fun s => decide (r.1 = s.1)) := by
    apply List.filter_congr
    intro s _
    exact matchesPat_map_some r.1 s.1
  rw [this, filter_label_eq_self data r hr hnd]
  simp [h.unit]

theorem groupByOther_labels (level : Nat) (data : List (List κ × M)) :
    (groupByOther op e level data).map (·.1) = dedup (data.map fun r => r.1.eraseIdx level) := by
  simp [groupByOther, List.map_map, Function.comp_def]

theorem groupByOther_nodup (level : Nat) (data : List (List κ × M)) :
    ((groupByOther op e level data).map (·.1)).Nodup := by
  rw [groupByOther_labels]; exact nodup_dedup _

theorem groupByOther_length (level n : Nat) (data : List (List κ × M)) (hl : level < n + 2)
    (hlen : ∀ r ∈ data, r.1.length = n + 2) : ∀ r ∈ groupByOther op e level data, r.1.length = n + 1 := by
  intro r hr
  have : r.1 ∈ (groupByOther op e level data).map (·.1) := List.mem_map_of_mem (f := (·.1)) hr
  rw [groupByOther_labels, mem_dedup, List.mem_map] at this
  obtain ⟨s, hs, hsr⟩ := this
  rw [← hsr, List.length_eraseIdx, hlen s hs]
  simp [hl]

/-- **one recursion step is faithful**: a summary row of the table aggregated over the other levels
summarises, in the original table, the pattern with `'All'` put at the aggregated level -/
theorem directAgg_groupByOther (h : AggLaws op e) (level n : Nat) (data : List (List κ × M)) (hl : level < n + 2)
    (hlen : ∀ r ∈ data, r.1.length = n + 2) (p : Pat κ) (hp : p.length = n + 1) :
    directAgg op e (groupByOther op e level data) p = directAgg op e data (p.insertIdx level none) := by
  unfold directAgg groupByOther
  rw [List.filter_map, List.map_map]
  have hnd : ((dedup (data.map fun r => r.1.eraseIdx level)).filter
      ((fun r : List κ × M => matchesPat p r.1) ∘ fun l =>
        (l, aggM op e ((data.filter fun r => r.1.eraseIdx level = l).map (·.2))))).Nodup :=
    List.Nodup.sublist List.filter_sublist (nodup_dedup _)
  have hpart := aggM_partition h (fun r : List κ × M => r.1.eraseIdx level) (·.2) _ hnd data
  simp only [Function.comp_def] at hpart ⊢
  rw [hpart]
  congr 2
  apply List.filter_congr
  intro r hr
  have hmem : r.1.eraseIdx level ∈ dedup (data.map fun r => r.1.eraseIdx level) := by
    rw [mem_dedup]; exact List.mem_map_of_mem (f := fun r : List κ × M => r.1.eraseIdx level) hr
  rw [matchesPat_insertIdx level p r.1 (by omega) (by rw [hlen r hr, hp])]
  simp [List.mem_filter, hmem]

/-! ### the recursion -/

theorem levels_lt (n : Nat) (levels : Option (List Nat)) (hlv : ∀ lv, levels = some lv → ∀ l ∈ lv, l < n)
    (l : Nat) (hl : l ∈ levels.getD (List.range n)) : l < n := by
  cases levels with
  | none => simpa using hl
  | some lv => exact hlv lv rfl l (by simpa using hl)

omit [DecidableEq κ] in
theorem mem_plainRows (data : List (List κ × M)) (r : Pat κ × M) :
    r ∈ plainRows data ↔ ∃ s ∈ data, r = (s.1.map some, s.2) := by
  simp only [plainRows, List.mem_map]
  constructor
  · rintro ⟨s, hs, rfl⟩; exact ⟨s, hs, rfl⟩
  · rintro ⟨s, hs, rfl⟩; exact ⟨s, hs, rfl⟩

/-- **soundness of `add_row_margin`**: every row of the output — ordinary or `'All'` — holds the
aggregate of exactly the input rows its label pattern summarises -/
theorem addRowMargin_sound (h : AggLaws op e) : ∀ (n : Nat) (levels : Option (List Nat)) (data : List (List κ × M)),
    0 < n → (∀ r ∈ data, r.1.length = n) → (data.map (·.1)).Nodup →
    (∀ lv, levels = some lv → ∀ l ∈ lv, l < n) →
    ∀ r ∈ addRowMargin op e n levels data, r.1.length = n ∧ r.2 = directAgg op e data r.1
  | 0, _, _, hn, _, _, _ => absurd hn (by omega)
  | 1, levels, data, _, hlen, hnd, _ => by
    intro r hr
    simp only [addRowMargin, List.mem_append, List.mem_singleton] at hr
    rcases hr with hr | hr
    · obtain ⟨s, hs, rfl⟩ := (mem_plainRows data r).mp hr
      exact ⟨by simp [hlen s hs], (directAgg_plain h data hnd s hs).symm⟩
    · subst hr
      refine ⟨rfl, ?_⟩
      unfold directAgg
      have : (data.filter fun s => matchesPat [none] s.1) = data := by
        rw [List.filter_eq_self]
        intro s hs
        have hl := hlen s hs
        match hs1 : s.1, hl with
        | [_], _ => simp [matchesPat]
      rw [this]
  | n + 2, levels, data, _, hlen, hnd, hlv => by
    intro r hr
    simp only [addRowMargin] at hr
    rw [List.mem_filter] at hr
    obtain ⟨hr, _⟩ := hr
    rw [List.mem_append] at hr
    rcases hr with hr | hr
    · obtain ⟨s, hs, rfl⟩ := (mem_plainRows data r).mp hr
      exact ⟨by simp [hlen s hs], (directAgg_plain h data hnd s hs).symm⟩
    · rw [List.mem_flatMap] at hr
      obtain ⟨level, hlevel, hr⟩ := hr
      rw [List.mem_map] at hr
      obtain ⟨s, hs, rfl⟩ := hr
      have hl : level < n + 2 := levels_lt (n + 2) levels hlv level hlevel
      have ih := addRowMargin_sound h (n + 1) none (groupByOther op e level data) (by omega)
        (groupByOther_length level n data hl hlen) (groupByOther_nodup level data) (by simp) s hs
      refine ⟨?_, ?_⟩
      · simp only
        rw [List.length_insertIdx_of_le_length (by omega), ih.1]
      · simp only
        rw [ih.2, directAgg_groupByOther h level n data hl hlen s.1 ih.1]

/-- `'All'` appears only at the requested levels (for a table with at least two levels) -/
theorem addRowMargin_levels (n : Nat) (levels : Option (List Nat)) (data : List (List κ × M))
    (r : Pat κ × M) (hr : r ∈ addRowMargin op e (n + 2) levels data) (l : Nat) (hl : l < n + 2)
    (hall : r.1[l]? = some none) : l ∈ levels.getD (List.range (n + 2)) := by
  simp only [addRowMargin] at hr
  rw [List.mem_filter] at hr
  have := hr.2
  rw [List.all_eq_true] at this
  have := this l (by simpa using hl)
  simpa [hall] using this

/-! ### completeness -/

/-- a matching pattern without `'All'` is the label itself -/
theorem eq_map_some_of_matches : ∀ (p : Pat κ) (l : List κ), matchesPat p l = true →
    (∀ i : Nat, p[i]? ≠ some none) → p = l.map some
  | [], [], _, _ => rfl
  | [], _ :: _, h, _ => by simp [matchesPat] at h
  | none :: ps, [], h, _ => by simp [matchesPat] at h
  | some _ :: ps, [], h, _ => by simp [matchesPat] at h
  | none :: ps, _ :: ls, _, hno => absurd (by simp) (hno 0)
  | some a :: ps, b :: ls, h, hno => by
    simp only [matchesPat, Bool.and_eq_true, decide_eq_true_eq] at h
    have := eq_map_some_of_matches ps ls h.2 (fun i => by simpa using hno (i + 1))
    simp [h.1, this]

theorem insertIdx_eraseIdx_getElem? {α : Type} : ∀ (l : Nat) (p : List α) (a : α), p[l]? = some a →
    (p.eraseIdx l).insertIdx l a = p
  | 0, [], _, h => by simp at h
  | 0, x :: xs, a, h => by
    simp only [List.getElem?_cons_zero, Option.some.injEq] at h
    simp [h]
  | l + 1, [], _, h => by simp at h
  | l + 1, x :: xs, a, h => by
    simp only [List.getElem?_cons_succ] at h
    simp [List.insertIdx_succ_cons, insertIdx_eraseIdx_getElem? l xs a h]

theorem mem_groupByOther_of_mem (level : Nat) (data : List (List κ × M)) (s : List κ × M) (hs : s ∈ data) :
    ∃ t ∈ groupByOther op e level data, t.1 = s.1.eraseIdx level := by
  have : s.1.eraseIdx level ∈ (groupByOther op e level data).map (·.1) := by
    rw [groupByOther_labels, mem_dedup]
    exact List.mem_map_of_mem (f := fun r : List κ × M => r.1.eraseIdx level) hs
  obtain ⟨t, ht, hts⟩ := List.mem_map.mp this
  exact ⟨t, ht, hts⟩

/-- **completeness of `add_row_margin`**: every pattern that summarises at least one input row and has
`'All'` only at requested levels is a row of the output (ordinary rows included) -/
theorem addRowMargin_complete : ∀ (n : Nat) (levels : Option (List Nat)) (data : List (List κ × M)),
    0 < n → (∀ r ∈ data, r.1.length = n) → (∀ lv, levels = some lv → ∀ l ∈ lv, l < n) →
    ∀ p : Pat κ, (∃ s ∈ data, matchesPat p s.1 = true) →
      (2 ≤ n → ∀ l, l < n → p[l]? = some none → l ∈ levels.getD (List.range n)) →
      p ∈ (addRowMargin op e n levels data).map (·.1)
  | 0, _, _, hn, _, _ => absurd hn (by omega)
  | 1, levels, data, _, hlen, _ => by
    intro p ⟨s, hs, hm⟩ _
    have hpl := matchesPat_length p s.1 hm
    rw [hlen s hs] at hpl
    simp only [addRowMargin, List.map_append, List.mem_append, List.map_cons, List.map_nil, List.mem_singleton]
    by_cases hno : ∀ i : Nat, p[i]? ≠ some none
    · left
      rw [eq_map_some_of_matches p s.1 hm hno]
      exact List.mem_map.mpr ⟨(s.1.map some, s.2), (mem_plainRows data _).mpr ⟨s, hs, rfl⟩, rfl⟩
    · right
      match p, hpl with
      | [none], _ => rfl
      | [some a], _ => exact absurd (fun i => by cases i <;> simp) hno
  | n + 2, levels, data, _, hlen, hlv => by
    intro p ⟨s, hs, hm⟩ hreq
    have hpl := matchesPat_length p s.1 hm
    rw [hlen s hs] at hpl
    have hkeep : ((List.range (n + 2)).all fun l =>
        (levels.getD (List.range (n + 2))).contains l || p[l]? != some none) = true := by
      rw [List.all_eq_true]
      intro l hl
      have hl' : l < n + 2 := by simpa using hl
      by_cases hall : p[l]? = some none
      · simp [hreq (by omega) l hl' hall]
      · simp [hall]
    by_cases hno : ∀ i : Nat, p[i]? ≠ some none
    · rw [eq_map_some_of_matches p s.1 hm hno] at hkeep ⊢
      refine List.mem_map.mpr ⟨(s.1.map some, s.2), ?_, rfl⟩
      simp only [addRowMargin]
      rw [List.mem_filter]
      exact ⟨List.mem_append_left _ ((mem_plainRows data _).mpr ⟨s, hs, rfl⟩), hkeep⟩
    · have ⟨l, hall⟩ : ∃ l : Nat, p[l]? = some none := by
        apply Classical.byContradiction
        intro hne
        exact hno (fun i hi => hne ⟨i, hi⟩)
      have hl : l < n + 2 := by
        rcases Nat.lt_or_ge l p.length with h' | h'
        · omega
        · rw [List.getElem?_eq_none h'] at hall; cases hall
      have hlmem := hreq (by omega) l hl hall
      have hpeq : (p.eraseIdx l).insertIdx l none = p := insertIdx_eraseIdx_getElem? l p none hall
      have hp'len : (p.eraseIdx l).length = n + 1 := by
        rw [List.length_eraseIdx]; simp [hpl, hl]
      obtain ⟨t, ht, hts⟩ := mem_groupByOther_of_mem (op := op) (e := e) l data s hs
      have hm' : matchesPat (p.eraseIdx l) t.1 = true := by
        rw [hts, ← matchesPat_insertIdx l (p.eraseIdx l) s.1 (by omega) (by rw [hlen s hs, hp'len]), hpeq]
        exact hm
      have ih := addRowMargin_complete (n + 1) none (groupByOther op e l data) (by omega)
        (groupByOther_length l n data hl hlen) (by simp) (p.eraseIdx l) ⟨t, ht, hm'⟩
        (by
          intro _ l' hl' _
          simpa using hl')
      obtain ⟨q, hq, hqp⟩ := List.mem_map.mp ih
      refine List.mem_map.mpr ⟨(q.1.insertIdx l none, q.2), ?_, by simp [hqp, hpeq]⟩
      simp only [addRowMargin]
      rw [List.mem_filter]
      refine ⟨List.mem_append_right _ ?_, by simpa [hqp, hpeq] using hkeep⟩
      rw [List.mem_flatMap]
      exact ⟨l, hlmem, List.mem_map.mpr ⟨q, hq, rfl⟩⟩

/-- every row of the output summarises at least one input row (for a non-empty table) -/
theorem addRowMargin_witness : ∀ (n : Nat) (levels : Option (List Nat)) (data : List (List κ × M)),
    0 < n → data ≠ [] → (∀ r ∈ data, r.1.length = n) → (∀ lv, levels = some lv → ∀ l ∈ lv, l < n) →
    ∀ r ∈ addRowMargin op e n levels data, ∃ s ∈ data, matchesPat r.1 s.1 = true
  | 0, _, _, hn, _, _, _ => absurd hn (by omega)
  | 1, levels, data, _, hne, hlen, _ => by
    intro r hr
    simp only [addRowMargin, List.mem_append, List.mem_singleton] at hr
    rcases hr with hr | hr
    · obtain ⟨s, hs, rfl⟩ := (mem_plainRows data r).mp hr
      exact ⟨s, hs, by simp [matchesPat_map_some]⟩
    · subst hr
      match data, hne, hlen with
      | s :: ds, _, hlen =>
        refine ⟨s, List.mem_cons_self .., ?_⟩
        have hl := hlen s (List.mem_cons_self ..)
        match hs1 : s.1, hl with
        | [_], _ => simp [matchesPat]
  | n + 2, levels, data, _, hne, hlen, hlv => by
    intro r hr
    simp only [addRowMargin] at hr
    rw [List.mem_filter] at hr
    obtain ⟨hr, _⟩ := hr
    rw [List.mem_append] at hr
    rcases hr with hr | hr
    · obtain ⟨s, hs, rfl⟩ := (mem_plainRows data r).mp hr
      exact ⟨s, hs, by simp [matchesPat_map_some]⟩
    · rw [List.mem_flatMap] at hr
      obtain ⟨level, hlevel, hr⟩ := hr
      rw [List.mem_map] at hr
      obtain ⟨q, hq, rfl⟩ := hr
      have hl : level < n + 2 := levels_lt (n + 2) levels hlv level hlevel
      have hne' : groupByOther op e level data ≠ [] := by
        match data, hne with
        | s :: ds, _ =>
          obtain ⟨t, ht, _⟩ := mem_groupByOther_of_mem (op := op) (e := e) level (s :: ds) s (List.mem_cons_self ..)
          exact List.ne_nil_of_mem ht
      have hlen' := groupByOther_length (op := op) (e := e) level n data hl hlen
      obtain ⟨t, ht, hm⟩ := addRowMargin_witness (n + 1) none (groupByOther op e level data) (by omega) hne'
        hlen' (by simp) q hq
      have : t.1 ∈ (groupByOther op e level data).map (·.1) := List.mem_map_of_mem (f := (·.1)) ht
      rw [groupByOther_labels, mem_dedup, List.mem_map] at this
      obtain ⟨s, hs, hst⟩ := this
      refine ⟨s, hs, ?_⟩
      have hql : q.1.length = n + 1 := by rw [matchesPat_length q.1 t.1 hm, hlen' t ht]
      simp only
      rw [matchesPat_insertIdx level q.1 s.1 (by omega) (by rw [hlen s hs, hql]), hst]
      exact hm

end

end GV
