import GroupbyVerif.Props.C04
import GroupbyVerif.Model.GroupBy
import GroupbyVerif.Lemmas.Factorize
import GroupbyVerif.Lemmas.Dispatch

/-!
# Lemmas for the end-to-end theorem of the public reduction pipeline (C01)
-/

namespace GV.Pipe
open GV GV.C04

/-! selection commutes with a row-wise map -/

theorem selectBool_map {α β : Type} (f : α → β) (xs : List α) (m : List Bool) :
    selectBool (xs.map f) m = (selectBool xs m).map f := by
  unfold selectBool
  induction xs generalizing m with
  | nil => simp
  | cons x xs ih =>
    cases m with
    | nil => simp
    | cons b m =>
      simp only [List.map_cons, List.zip_cons_cons, List.filter_cons]
      cases b <;> simp [ih]

theorem takePositions_map {α β : Type} (f : α → β) (xs : List α) (ps : List Int) :
    takePositions (xs.map f) ps = (takePositions xs ps).map (List.map f) := by
  induction ps with
  | nil => simp [takePositions_nil]
  | cons p ps ih =>
    rw [takePositions_cons, takePositions_cons, ih]
    simp only [List.length_map]
    by_cases hq : normIdx xs.length p < 0
    · simp [hq]
    · simp only [hq, if_false, List.getElem?_map]
      cases h1 : xs[(normIdx xs.length p).toNat]? with
      | none => simp
      | some a =>
        cases h2 : takePositions xs ps <;> simp

theorem sliceSel_map {α β : Type} (f : α → β) (xs : List α) (a b : Option Int) :
    sliceSel (xs.map f) a b = (sliceSel xs a b).map f := by
  simp [sliceSel, List.map_take, List.map_drop]

theorem selectGen_map {α β : Type} (f : α → β) (xs : List α) (m : Mask) :
    selectGen (xs.map f) m = (selectGen xs m).map (List.map f) := by
  cases m with
  | none => simp [selectGen]
  | bool m =>
    simp only [selectGen, List.length_map]
    split
    · simp [selectBool_map]
    · simp
  | slice a b => simp [selectGen, sliceSel_map]
  | pos p => simp [selectGen, takePositions_map]

theorem codeOf_eq_ofNat_iff {κ : Type} [DecidableEq κ] (labels : List κ) (hnd : labels.Nodup) (ky : Option κ) (hk : ∀ x, ky = some x → x ∈ labels)
    (g : Nat) (hg : g < labels.length) : codeOf labels ky = Int.ofNat g ↔ ky = some labels[g] := by
  cases ky with
  | none => simp [codeOf]
  | some x =>
    have hx := hk x rfl
    simp only [codeOf, Option.some.injEq]
    constructor
    · intro h
      have h' : labels.idxOf x = g := Int.ofNat.inj h
      subst h'
      simp
    · intro h
      subst h
      have := hnd.idxOf_getElem g hg
      show Int.ofNat (labels.idxOf labels[g]) = Int.ofNat g
      rw [this]

theorem blocksOf_single (rows : List Row) (mask : Mask) (blocks : List (List Row))
    (h : blocksOf rows mask 1 none = some blocks) : ∃ b, blocks = [b] := by
  cases mask with
  | none => simp [blocksOf, blocksPlain, isChunked] at h; exact ⟨_, h.symm⟩
  | bool m =>
    simp only [blocksOf, blocksBool, isChunked] at h
    simp at h
    exact ⟨_, h.2.symm⟩
  | slice a b => simp [blocksOf, blocksPlain, isChunked] at h; exact ⟨_, h.symm⟩
  | pos p =>
    simp only [blocksOf, blocksPos] at h
    simp at h
    obtain ⟨b, _, hb⟩ := h
    exact ⟨b, hb.symm⟩

/-- the size kernel on one thread: per group the number of selected rows -/
theorem size_kernel_count (rows : List Row) (mask : Mask) (cnt : Int → Partial)
    (hm : ∀ m, mask = .bool m → m.length = rows.length)
    (h : groupKernel modelReducers .size (.i 64) rows mask 1 none = some cnt) :
    ∃ sel, selectRows rows mask = some sel ∧ ∀ g, 0 ≤ g → (cnt g).2 = (valsOf sel g).length := by
  unfold groupKernel at h
  cases hb : blocksOf rows mask 1 none with
  | none => simp [hb] at h
  | some blocks =>
    obtain ⟨b, rfl⟩ := blocksOf_single rows mask blocks hb
    obtain ⟨hsel, _⟩ := blocksOf_flatten rows mask 1 none [b] hm hb
    simp only [hb, Option.some.injEq] at h
    subst h
    refine ⟨b, by simpa using hsel, ?_⟩
    intro g hg
    rw [kernel_eq_def .size (.i 64) b g hg]
    simp [specKernel]

theorem specKernel_count_pos (kn : Kernel) (k : Kind) (vs : List Val) (h : (specKernel kn k vs).2 > 0) : vs ≠ [] := by
  intro hc
  subst hc
  cases kn <;> simp [specKernel, nonNull] at h

theorem zip_codes_vals (labels : List Key) (keys : List (Option Key)) (vals : List Val) :
    (keys.map (codeOf labels)).zip vals = (keys.zip vals).map (fun r => (codeOf labels r.1, r.2)) := by
  induction keys generalizing vals with
  | nil => simp
  | cons x xs ih => cases vals with
    | nil => simp
    | cons v vs => simp [ih]

theorem zip_codes_codes (labels : List Key) (keys : List (Option Key)) (vals : List Val) (hlen : keys.length = vals.length) :
    (keys.map (codeOf labels)).zip ((keys.map (codeOf labels)).map Val.num)
      = (keys.zip vals).map (fun r => (codeOf labels r.1, Val.num (codeOf labels r.1))) := by
  induction keys generalizing vals with
  | nil => simp
  | cons x xs ih => cases vals with
    | nil => simp at hlen
    | cons v vs =>
      simp only [List.length_cons, Nat.add_right_cancel_iff] at hlen
      simp only [List.map_cons, List.zip_cons_cons]
      rw [ih vs hlen]

theorem getD_lt (labels : List Key) (g : Nat) (hg : g < labels.length) : labels.getD g [] = labels[g] := by
  unfold List.getD
  rw [List.getElem?_eq_getElem hg]
  rfl

theorem range_map_getD (labels : List Key) : (List.range labels.length).map (fun g => labels.getD g []) = labels := by
  apply List.ext_getElem
  · simp
  · intro i h1 h2
    simp at h1
    simp only [List.getElem_map, List.getElem_range]
    exact getD_lt labels i h1

end GV.Pipe
