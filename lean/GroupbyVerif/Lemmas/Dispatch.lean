import GroupbyVerif.Lemmas.Fold

/-! # The dispatch of `_group_func_wrap`: the blocks concatenate to the rows array indexing selects -/

namespace GV

theorem splitBy_length {α : Type} (xs : List α) (sizes : List Nat) : (splitBy xs sizes).length = sizes.length := by
  induction sizes generalizing xs with
  | nil => simp [splitBy]
  | cons s ss ih => simp [splitBy, ih]

theorem splitSizes_length (n k : Nat) : (splitSizes n k).length = k := by simp [splitSizes]

theorem arraySplit_length {α : Type} (xs : List α) (k : Nat) : (arraySplit xs k).length = k := by
  simp [arraySplit, splitBy_length, splitSizes_length]

theorem selectBool_append {α : Type} (a b : List α) (ma mb : List Bool) (h : a.length = ma.length) :
    selectBool (a ++ b) (ma ++ mb) = selectBool a ma ++ selectBool b mb := by
  simp [selectBool, List.zip_append h, List.filter_append]

/-- boolean selection distributes over splitting keys and mask at the same lengths -/
theorem selectBool_splitBy {α : Type} (xs : List α) (m : List Bool) (lens : List Nat) (hl : xs.length = m.length) :
    (((splitBy xs lens).zip (splitBy m lens)).map fun p => selectBool p.1 p.2).flatten
      = selectBool (xs.take lens.sum) (m.take lens.sum) := by
  induction lens generalizing xs m with
  | nil => simp [splitBy, selectBool]
  | cons s ss ih =>
    simp only [splitBy, List.zip_cons_cons, List.map_cons, List.flatten_cons, List.sum_cons]
    rw [ih (xs.drop s) (m.drop s) (by simp [hl])]
    rw [List.take_add, List.take_add, List.take_drop, List.take_drop]
    rw [selectBool_append _ _ _ _ (by simp [hl])]

theorem takePositions_nil {α : Type} (xs : List α) : takePositions xs [] = some [] := rfl

theorem takePositions_cons {α : Type} (xs : List α) (p : Int) (ps : List Int) :
    takePositions xs (p :: ps) =
      (do let x ← (let q := normIdx xs.length p; if q < 0 then none else xs[q.toNat]?)
          let r ← takePositions xs ps
          pure (x :: r)) := by
  simp [takePositions, List.mapM_cons]

theorem takePositions_append {α : Type} (xs : List α) (a b : List Int) (ra rb : List α)
    (ha : takePositions xs a = some ra) (hb : takePositions xs b = some rb) :
    takePositions xs (a ++ b) = some (ra ++ rb) := by
  induction a generalizing ra with
  | nil => simp [takePositions_nil] at ha; subst ha; simpa using hb
  | cons p ps ih =>
    rw [takePositions_cons] at ha
    simp only [List.cons_append]
    rw [takePositions_cons]
    cases hx : (let q := normIdx xs.length p; if q < 0 then none else xs[q.toNat]?) with
    | none => simp [hx] at ha
    | some x =>
      cases hr : takePositions xs ps with
      | none => simp [hx, hr] at ha
      | some r =>
        simp [hx, hr] at ha
        subst ha
        simp [hx, ih r hr]

/-- fancy indexing block by block = fancy indexing with the concatenated positions -/
theorem takePositions_blocks {α : Type} (xs : List α) (parts : List (List Int)) (bs : List (List α))
    (h : parts.mapM (takePositions xs) = some bs) :
    takePositions xs parts.flatten = some bs.flatten ∧ bs.length = parts.length := by
  induction parts generalizing bs with
  | nil => simp at h; subst h; exact ⟨rfl, rfl⟩
  | cons p ps ih =>
    simp only [List.mapM_cons] at h
    cases hp : takePositions xs p with
    | none => simp [hp] at h
    | some r =>
      cases hps : ps.mapM (takePositions xs) with
      | none => simp [hp, hps] at h
      | some rs =>
        simp [hp, hps] at h
        subst h
        obtain ⟨h1, h2⟩ := ih rs hps
        exact ⟨by simpa using takePositions_append xs p ps.flatten r rs.flatten hp h1, by simp [h2]⟩

/-- positions of the true entries, taken with fancy indexing, are the boolean selection -/
theorem takePositions_nonzero {α : Type} (xs : List α) (m : List Bool) (h : m.length = xs.length) :
    takePositions xs ((nonzero m).map Int.ofNat) = some (selectBool xs m) := by
  suffices H : ∀ (pre : List α) (k : Nat) (ys : List α) (mm : List Bool), mm.length = ys.length → k = pre.length →
      takePositions (pre ++ ys) (((mm.zipIdx k).filter (·.1)).map (fun p => Int.ofNat p.2)) = some (selectBool ys mm) by
    have := H [] 0 xs m h rfl
    simpa [nonzero, List.map_map, Function.comp_def] using this
  intro pre k ys mm
  induction mm generalizing pre k ys with
  | nil =>
    intro hl _
    have : ys = [] := by simpa using hl.symm
    subst this; simp [selectBool, takePositions]
  | cons b bs ih =>
    intro hl hk
    cases ys with
    | nil => simp at hl
    | cons y ys' =>
      simp only [List.length_cons, Nat.add_right_cancel_iff] at hl
      have hrec := ih (pre ++ [y]) (k + 1) ys' hl (by simp [hk])
      simp only [List.append_assoc, List.singleton_append] at hrec
      simp only [List.zipIdx_cons]
      cases b with
      | false =>
        simp only [List.filter_cons, Bool.false_eq_true, if_false]
        simpa [selectBool] using hrec
      | true =>
        simp only [List.filter_cons, if_true, List.map_cons]
        rw [takePositions_cons]
        have hq : normIdx (pre ++ y :: ys').length (Int.ofNat k) = (k : Int) := by
          have : ¬ ((k : Int) < 0) := by omega
          simp [normIdx, this]
        have hget : (pre ++ y :: ys')[k]? = some y := by
          subst hk; simp
        simp only [hq]
        have hnn : ¬ ((k : Int) < 0) := by omega
        simp only [hnn, if_false, Int.toNat_natCast, hget]
        rw [hrec]
        simp [selectBool]

end GV

namespace GV

theorem arraySplit_ne_nil {α : Type} (xs : List α) (k : Nat) (hk : 0 < k) : arraySplit xs k ≠ [] := by
  intro h
  have := arraySplit_length xs k
  rw [h] at this; simp at this; omega

theorem mapM_ne_nil {α β : Type} (f : α → Option β) (l : List α) (r : List β) (h : l.mapM f = some r) (hl : l ≠ []) : r ≠ [] := by
  cases l with
  | nil => exact absurd rfl hl
  | cons x xs =>
    simp only [List.mapM_cons] at h
    cases hx : f x with
    | none => simp [hx] at h
    | some y =>
      cases hxs : xs.mapM f with
      | none => simp [hx, hxs] at h
      | some ys => simp [hx, hxs] at h; subst h; simp

theorem isChunked_getD_ne_nil (vch : Option (List Nat)) (h : isChunked vch = true) : vch.getD [] ≠ [] := by
  cases vch with
  | none => simp [isChunked] at h
  | some lens =>
    simp only [isChunked, decide_eq_true_eq] at h
    intro hn; simp at hn; subst hn; simp at h

theorem splitBy_ne_nil {α : Type} (xs : List α) (sizes : List Nat) (h : sizes ≠ []) : splitBy xs sizes ≠ [] := by
  intro hn
  have := splitBy_length xs sizes
  rw [hn] at this
  exact h (by simpa using this.symm)

/-- no mask: the blocks concatenate to the rows -/
theorem blocksPlain_flatten (rows : List Row) (threads : Nat) (vch : Option (List Nat)) (blocks : List (List Row))
    (h : blocksPlain rows threads vch = some blocks) : blocks.flatten = rows ∧ blocks ≠ [] := by
  unfold blocksPlain at h
  split at h
  · simp only [Option.some.injEq] at h; subst h; simp
  · split at h
    · rename_i hch
      simp only at h
      split at h
      · simp at h
      · rename_i hsum
        simp only [Option.some.injEq] at h
        subst h
        have hs : (vch.getD []).sum = rows.length := by simpa using hsum
        exact ⟨by rw [splitBy_flatten, hs, List.take_length], splitBy_ne_nil _ _ (isChunked_getD_ne_nil vch hch)⟩
    · split at h
      · simp at h
      · simp only [Option.some.injEq] at h
        subst h
        have hk : 0 < threads := by omega
        exact ⟨arraySplit_flatten rows threads hk, arraySplit_ne_nil rows threads hk⟩

/-- boolean mask: the blocks concatenate to `rows[mask]` -/
theorem blocksBool_flatten (rows : List Row) (m : List Bool) (threads : Nat) (vch : Option (List Nat))
    (blocks : List (List Row)) (hm : m.length = rows.length)
    (h : blocksBool rows m threads vch = some blocks) : blocks.flatten = selectBool rows m ∧ blocks ≠ [] := by
  unfold blocksBool at h
  split at h
  · simp only [hm, if_true, Option.some.injEq] at h; subst h; simp
  · split at h
    · rename_i hch
      simp only at h
      split at h
      · simp at h
      · rename_i hsum
        simp only [hm, ne_eq, not_true_eq_false, if_false, Option.some.injEq] at h
        subst h
        have hs : (vch.getD []).sum = rows.length := by simpa using hsum
        refine ⟨?_, ?_⟩
        · rw [selectBool_splitBy rows m _ hm.symm, hs, List.take_length, ← hm, List.take_length]
        · intro hn
          have h1 := splitBy_length rows (vch.getD [])
          have h2 := splitBy_length m (vch.getD [])
          have : (((splitBy rows (vch.getD [])).zip (splitBy m (vch.getD []))).map fun p => selectBool p.1 p.2).length
              = (vch.getD []).length := by simp [h1, h2]
          rw [hn] at this
          exact isChunked_getD_ne_nil vch hch (by simpa using this.symm)
    · split at h
      · simp at h
      · have hk : 0 < threads := by omega
        obtain ⟨h1, _⟩ := takePositions_blocks rows _ blocks h
        rw [arraySplit_flatten _ _ hk, takePositions_nonzero rows m hm] at h1
        exact ⟨(Option.some.inj h1).symm, mapM_ne_nil _ _ _ h (arraySplit_ne_nil _ _ hk)⟩

/-- positional mask: the blocks concatenate to `rows[positions]` (repeats and negative positions as numpy) -/
theorem blocksPos_flatten (rows : List Row) (p : List Int) (threads : Nat) (blocks : List (List Row))
    (h : blocksPos rows p threads = some blocks) : takePositions rows p = some blocks.flatten ∧ blocks ≠ [] := by
  unfold blocksPos at h
  split at h
  · cases hp : takePositions rows p with
    | none => simp [hp] at h
    | some r => simp [hp] at h; subst h; simp
  · split at h
    · simp at h
    · have hk : 0 < threads := by omega
      obtain ⟨h1, _⟩ := takePositions_blocks rows _ blocks h
      rw [arraySplit_flatten _ _ hk] at h1
      exact ⟨h1, mapM_ne_nil _ _ _ h (arraySplit_ne_nil _ _ hk)⟩

/-- **the dispatch selects rows the way array indexing would**: whatever the number of threads and
the chunking of the values, the blocks handed to the single-chunk kernel concatenate to
`rows[mask]` (boolean mask, slice with None/negative bounds, positions with repeats/negatives) -/
theorem blocksOf_flatten (rows : List Row) (mask : Mask) (threads : Nat) (vch : Option (List Nat))
    (blocks : List (List Row)) (hm : ∀ m, mask = .bool m → m.length = rows.length)
    (h : blocksOf rows mask threads vch = some blocks) :
    selectRows rows mask = some blocks.flatten ∧ blocks ≠ [] := by
  cases mask with
  | none =>
    obtain ⟨h1, h2⟩ := blocksPlain_flatten rows threads vch blocks h
    exact ⟨by simp [selectRows, selectGen, h1], h2⟩
  | bool m =>
    obtain ⟨h1, h2⟩ := blocksBool_flatten rows m threads vch blocks (hm m rfl) h
    exact ⟨by simp [selectRows, selectGen, hm m rfl, h1], h2⟩
  | pos p =>
    obtain ⟨h1, h2⟩ := blocksPos_flatten rows p threads blocks h
    exact ⟨by simp [selectRows, selectGen, h1], h2⟩
  | slice a b =>
    simp only [blocksOf] at h
    obtain ⟨h1, h2⟩ := blocksPlain_flatten _ threads _ blocks h
    exact ⟨by simp [selectRows, selectGen, h1], h2⟩

end GV

namespace GV

theorem takePositions_mem {α : Type} (xs : List α) (ps : List Int) (r : List α) (h : takePositions xs ps = some r) :
    ∀ x ∈ r, x ∈ xs := by
  induction ps generalizing r with
  | nil => simp [takePositions_nil] at h; subst h; simp
  | cons p ps ih =>
    rw [takePositions_cons] at h
    cases hx : (let q := normIdx xs.length p; if q < 0 then none else xs[q.toNat]?) with
    | none => simp [hx] at h
    | some y =>
      cases hr : takePositions xs ps with
      | none => simp [hx, hr] at h
      | some r' =>
        simp [hx, hr] at h
        subst h
        intro x hxm
        simp only [List.mem_cons] at hxm
        rcases hxm with rfl | hxm
        · simp only at hx
          split at hx
          · simp at hx
          · exact List.mem_of_getElem? hx
        · exact ih r' hr x hxm

/-- whatever the mask kind, only elements of the input are selected -/
theorem selectGen_mem {α : Type} (xs : List α) (mask : Mask) (sel : List α) (h : selectGen xs mask = some sel) :
    ∀ x ∈ sel, x ∈ xs := by
  cases mask with
  | none => simp [selectGen] at h; subst h; simp
  | bool m =>
    simp only [selectGen] at h
    split at h
    · simp only [Option.some.injEq] at h; subst h
      intro x hx
      simp only [selectBool, List.mem_map, List.mem_filter] at hx
      obtain ⟨⟨a, b⟩, ⟨hz, _⟩, rfl⟩ := hx
      exact (List.of_mem_zip hz).1
    · simp at h
  | slice a b =>
    simp only [selectGen, Option.some.injEq] at h; subst h
    intro x hx
    simp only [sliceSel] at hx
    exact List.mem_of_mem_drop (List.mem_of_mem_take hx)
  | pos p => exact takePositions_mem xs p sel h

end GV
