import GroupbyVerif.Lemmas.Fold

/-! # The merge of partial results: generic homomorphism theorem

If a merge commutes with the single-pass step (on "good" partials) and treats the empty
partial as a right identity, then merging the partials of two blocks equals running the
single pass over the concatenation.  Each kernel then only needs a case analysis on one step.
-/

namespace GV

structure MergeOK (step : Partial → Val → Partial) (merge : Partial → Partial → Partial)
    (e : Partial) (Good : Partial → Prop) (P : Val → Prop) : Prop where
  good_e : Good e
  good_step : ∀ t v, Good t → P v → Good (step t v)
  merge_e : ∀ s, Good s → merge s e = s
  e_merge : ∀ t, Good t → merge e t = t
  comm : ∀ s t v, Good s → Good t → P v → merge s (step t v) = step (merge s t) v

variable {step : Partial → Val → Partial} {merge : Partial → Partial → Partial}
  {e : Partial} {Good : Partial → Prop} {P : Val → Prop}

theorem MergeOK.good_fold (h : MergeOK step merge e Good P) (t : Partial) (ht : Good t)
    (B : List Val) (hB : ∀ v ∈ B, P v) : Good (B.foldl step t) := by
  induction B generalizing t with
  | nil => simpa
  | cons v B ih =>
    simp only [List.foldl_cons]
    exact ih _ (h.good_step t v ht (hB v (List.mem_cons_self ..)))
      (fun w hw => hB w (List.mem_cons_of_mem _ hw))

theorem MergeOK.merge_fold_gen (h : MergeOK step merge e Good P) (s t : Partial) (hs : Good s)
    (ht : Good t) (B : List Val) (hB : ∀ v ∈ B, P v) :
    merge s (B.foldl step t) = B.foldl step (merge s t) := by
  induction B generalizing t with
  | nil => simp
  | cons v B ih =>
    simp only [List.foldl_cons]
    have hv := hB v (List.mem_cons_self ..)
    rw [ih _ (h.good_step t v ht hv) (fun w hw => hB w (List.mem_cons_of_mem _ hw)),
      h.comm s t v hs ht hv]

/-- merging the single-pass results of two blocks = single pass over their concatenation -/
theorem MergeOK.merge_append (h : MergeOK step merge e Good P) (A B : List Val)
    (hA : ∀ v ∈ A, P v) (hB : ∀ v ∈ B, P v) :
    merge (A.foldl step e) (B.foldl step e) = (A ++ B).foldl step e := by
  have hs := h.good_fold e h.good_e A hA
  rw [h.merge_fold_gen _ e hs h.good_e B hB, h.merge_e _ hs, List.foldl_append]

/-- any number of blocks, merged left to right starting from the first block's partial -/
theorem MergeOK.merge_blocks (h : MergeOK step merge e Good P) (A : List Val) (Bs : List (List Val))
    (hA : ∀ v ∈ A, P v) (hB : ∀ B ∈ Bs, ∀ v ∈ B, P v) :
    (Bs.map (·.foldl step e)).foldl merge (A.foldl step e) = (A ++ Bs.flatten).foldl step e := by
  induction Bs generalizing A with
  | nil => simp
  | cons B Bs ih =>
    simp only [List.map_cons, List.foldl_cons, List.flatten_cons]
    rw [h.merge_append A B hA (hB B (List.mem_cons_self ..))]
    rw [ih (A ++ B)]
    · simp
    · intro v hv
      rcases List.mem_append.mp hv with h1 | h1
      · exact hA v h1
      · exact hB B (List.mem_cons_self ..) v h1
    · intro B' hB' v hv
      exact hB B' (List.mem_cons_of_mem _ hB') v hv

/-- the same starting from the empty partial (the chunked-key path of `core`) -/
theorem MergeOK.merge_blocks_from_empty (h : MergeOK step merge e Good P) (Bs : List (List Val))
    (hB : ∀ B ∈ Bs, ∀ v ∈ B, P v) :
    (Bs.map (·.foldl step e)).foldl merge e = Bs.flatten.foldl step e := by
  have := h.merge_blocks [] Bs (by simp) hB
  simpa using this

end GV
