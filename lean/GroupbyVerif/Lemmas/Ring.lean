import GroupbyVerif.Model.Rolling

/-! # Ring-buffer invariant of the rolling sum/mean kernel (single group) -/

namespace GV

def sumNN (k : Kind) : List Val → Int
  | [] => 0
  | v :: xs => (if isNull k v then 0 else valInt v) + sumNN k xs

def cntNN (k : Kind) : List Val → Int
  | [] => 0
  | v :: xs => (if isNull k v then 0 else 1) + cntNN k xs

theorem sumNN_append (k : Kind) (a b : List Val) : sumNN k (a ++ b) = sumNN k a + sumNN k b := by
  induction a with
  | nil => simp [sumNN]
  | cons x xs ih => simp [sumNN, ih]; omega

theorem cntNN_append (k : Kind) (a b : List Val) : cntNN k (a ++ b) = cntNN k a + cntNN k b := by
  induction a with
  | nil => simp [cntNN]
  | cons x xs ih => simp [cntNN, ih]; omega

theorem sumNN_eq (k : Kind) (l : List Val) : sumNN k l = ((nonNull k l).map valInt).sum := by
  induction l with
  | nil => simp [sumNN, nonNull]
  | cons x xs ih =>
    by_cases h : isNull k x = true
    · simp [sumNN, nonNull, h, List.filter_cons] at ih ⊢; exact ih
    · simp [sumNN, nonNull, h, List.filter_cons] at ih ⊢; omega

theorem cntNN_eq (k : Kind) (l : List Val) : cntNN k l = ((nonNull k l).length : Int) := by
  induction l with
  | nil => simp [cntNN, nonNull]
  | cons x xs ih =>
    by_cases h : isNull k x = true
    · simp [cntNN, nonNull, h, List.filter_cons] at ih ⊢; exact ih
    · simp [cntNN, nonNull, h, List.filter_cons] at ih ⊢; omega

structure RInv (k : Kind) (w : Nat) (h : List Val) (s : RS) : Prop where
  len : s.buf.length = w
  pos : s.pos = h.length % w
  seen : s.nSeen = min h.length w
  slot : ∀ i, h.length - w ≤ i → (hi : i < h.length) → s.buf[i % w]? = some h[i]
  sum : s.sum = sumNN k (lastN w h)
  nn : s.nn = cntNN k (lastN w h)

theorem lastN_snoc_notfull {α : Type} (w : Nat) (h : List α) (v : α) (hlt : h.length < w) :
    lastN w (h ++ [v]) = lastN w h ++ [v] := by
  unfold lastN
  have h1 : h.length + 1 - w = 0 := by omega
  have h2 : h.length - w = 0 := by omega
  simp [h1, h2]

theorem lastN_snoc_full {α : Type} (w : Nat) (hw : 0 < w) (h : List α) (v : α) (hge : w ≤ h.length) :
    lastN w (h ++ [v]) = (lastN w h).tail ++ [v] := by
  unfold lastN
  have h1 : (h ++ [v]).length - w = (h.length - w) + 1 := by simp; omega
  rw [h1, List.drop_append_of_le_length (by omega), List.tail_drop]

theorem lastN_head_full {α : Type} (w : Nat) (hw : 0 < w) (h : List α) (hge : w ≤ h.length) :
    lastN w h = h[h.length - w]'(by omega) :: (lastN w h).tail := by
  unfold lastN
  rw [List.tail_drop]
  exact List.drop_eq_getElem_cons (by omega)

theorem rinv_init (k : Kind) (w : Nat) (hw : 0 < w) : RInv k w [] (rinit k w) := by
  constructor <;> simp [rinit, lastN, sumNN, cntNN]

theorem mod_ne_of_window (w i n : Nat) (hw : 0 < w) (h1 : n - w < i) (h2 : i < n) (hn : w ≤ n) : n % w ≠ i % w := by
  intro heq
  have e1 := Nat.mod_add_div i w
  have e2 := Nat.mod_add_div n w
  have hq : i / w < n / w ∨ i / w ≥ n / w := by omega
  rcases hq with hq | hq
  · have : (i / w + 1) * w ≤ (n / w) * w := Nat.mul_le_mul_right w hq
    rw [Nat.add_mul] at this
    rw [Nat.mul_comm w (i / w)] at e1
    rw [Nat.mul_comm w (n / w)] at e2
    omega
  · have : (n / w) * w ≤ (i / w) * w := Nat.mul_le_mul_right w hq
    rw [Nat.mul_comm w (i / w)] at e1
    rw [Nat.mul_comm w (n / w)] at e2
    omega

theorem rinv_step (k : Kind) (w : Nat) (hw : 0 < w) (h : List Val) (s : RS) (v : Val)
    (inv : RInv k w h s) : RInv k w (h ++ [v]) (rstep k w s v) := by
  have hpos_lt : s.pos < w := by rw [inv.pos]; exact Nat.mod_lt _ hw
  by_cases hfull : w ≤ h.length
  · have hseen : s.nSeen = w := by rw [inv.seen]; omega
    have hold : s.buf[s.pos]? = some h[h.length - w] := by
      have := inv.slot (h.length - w) (by omega) (by omega)
      rw [inv.pos]
      have hm : (h.length - w) % w = h.length % w := by
        conv => rhs; rw [show h.length = (h.length - w) + w by omega]
        simp
      rw [← hm]; exact this
    have holdD : s.buf.getD s.pos (nullValue k) = h[h.length - w] := by
      simp [List.getD, hold]
    constructor
    · simp [rstep, inv.len]
    · simp [rstep, inv.pos, Nat.add_mod]
    · simp [rstep, hseen]; omega
    · intro i hlo hi
      simp only [List.length_append, List.length_singleton] at hlo hi
      by_cases hlast : i = h.length
      · subst hlast
        simp [rstep, inv.pos, inv.len, Nat.mod_lt _ hw]
      · have hi' : i < h.length := by omega
        have hne : s.pos ≠ i % w := by
          rw [inv.pos]
          exact mod_ne_of_window w i h.length hw (by omega) hi' hfull
        have := inv.slot i (by omega) hi'
        simp only [rstep]
        rw [List.getElem?_set_ne hne, this]
        simp [List.getElem_append_left hi']
    · rw [lastN_snoc_full w hw h v hfull, sumNN_append]
      have hh := lastN_head_full w hw h hfull
      have hs := inv.sum
      rw [hh] at hs
      have hge : s.nSeen ≥ w := by omega
      simp only [rstep, hge, decide_true, holdD, Bool.true_and]
      by_cases ho : isNull k h[h.length - w] = true <;> by_cases hv : isNull k v = true <;>
        simp [ho, hv, sumNN] at hs ⊢ <;> omega
    · rw [lastN_snoc_full w hw h v hfull, cntNN_append]
      have hh := lastN_head_full w hw h hfull
      have hs := inv.nn
      rw [hh] at hs
      have hge : s.nSeen ≥ w := by omega
      simp only [rstep, hge, decide_true, holdD, Bool.true_and]
      by_cases ho : isNull k h[h.length - w] = true <;> by_cases hv : isNull k v = true <;>
        simp [ho, hv, cntNN] at hs ⊢ <;> omega
  · have hlt : h.length < w := by omega
    have hseen : s.nSeen = h.length := by rw [inv.seen]; omega
    have hposeq : s.pos = h.length := by rw [inv.pos]; exact Nat.mod_eq_of_lt hlt
    have hnf : ¬ (s.nSeen ≥ w) := by omega
    constructor
    · simp [rstep, inv.len]
    · simp [rstep, hposeq]
    · simp only [rstep, hnf, decide_false, List.length_append, List.length_singleton]
      simp; omega
    · intro i hlo hi
      simp only [List.length_append, List.length_singleton] at hlo hi
      have hiw : i % w = i := Nat.mod_eq_of_lt (by omega)
      by_cases hlast : i = h.length
      · subst hlast
        simp [rstep, hposeq, inv.len, hiw, hlt]
      · have hi' : i < h.length := by omega
        have := inv.slot i (by omega) hi'
        simp only [rstep]
        rw [hiw] at this ⊢
        rw [List.getElem?_set_ne (by omega), this]
        simp [List.getElem_append_left hi']
    · rw [lastN_snoc_notfull w h v hlt, sumNN_append]
      have hs := inv.sum
      simp only [rstep, hnf, decide_false, Bool.false_and]
      by_cases hv : isNull k v = true <;> simp [hv, sumNN, hs]
    · rw [lastN_snoc_notfull w h v hlt, cntNN_append]
      have hs := inv.nn
      simp only [rstep, hnf, decide_false, Bool.false_and]
      by_cases hv : isNull k v = true <;> simp [hv, cntNN, hs]

/-- every reachable state of one group satisfies the ring invariant w.r.t. its history -/
theorem rinv_fold (k : Kind) (w : Nat) (hw : 0 < w) (hist : List Val) :
    RInv k w hist (hist.foldl (rstep k w) (rinit k w)) := by
  suffices H : ∀ (done rest : List Val) (s : RS), RInv k w done s → RInv k w (done ++ rest) (rest.foldl (rstep k w) s) by
    simpa using H [] hist (rinit k w) (rinv_init k w hw)
  intro done rest
  induction rest generalizing done with
  | nil => intro s inv; simpa using inv
  | cons r rest ih =>
    intro s inv
    simp only [List.foldl_cons]
    have := ih (done ++ [r]) (rstep k w s r) (rinv_step k w hw done s r inv)
    simpa using this

end GV
