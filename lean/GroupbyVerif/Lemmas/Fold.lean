import GroupbyVerif.Model.Spec

/-! # Generic lemmas: per-group folds, block concatenation, array splitting -/

namespace GV

theorem groupFold_spec {σ α : Type} (f : σ → α → σ) (init : Int → σ) (rows : List (Int × α))
    (g : Int) (hg : 0 ≤ g) :
    groupFold f init rows g = ((rows.filter (fun r => r.1 = g)).map (·.2)).foldl f (init g) := by
  unfold groupFold
  induction rows generalizing init with
  | nil => simp
  | cons r rs ih =>
    simp only [List.foldl_cons]
    rw [ih]
    by_cases h : r.1 = g
    · have h0 : ¬ g < 0 := by omega
      subst h
      simp [gstep, upd, h0, List.filter_cons]
    · have h' : ¬ g = r.1 := fun e => h e.symm
      simp only [List.filter_cons, h, decide_false]
      simp only [gstep]
      split
      · rfl
      · simp [upd, h']

/-- the kernel at group `g` is the reducer folded over that group's values: other groups'
rows and rows with a negative code never enter -/
theorem groupByReduce_at (red : Red) (init : Val) (rows : List Row) (g : Int) (hg : 0 ≤ g) :
    groupByReduce red init rows g = runRed red init (valsOf rows g) := by
  unfold groupByReduce runRed valsOf
  exact groupFold_spec (pstep red) _ rows g hg

theorem valsOf_append (a b : List Row) (g : Int) : valsOf (a ++ b) g = valsOf a g ++ valsOf b g := by
  simp [valsOf, List.filter_append]

theorem valsOf_flatten (bs : List (List Row)) (g : Int) :
    valsOf bs.flatten g = (bs.map (valsOf · g)).flatten := by
  induction bs with
  | nil => simp [valsOf]
  | cons b bs ih => simp [valsOf_append, ih]

theorem nonNull_append (k : Kind) (a b : List Val) : nonNull k (a ++ b) = nonNull k a ++ nonNull k b := by
  simp [nonNull, List.filter_append]

/-- rows with a negative code are ignored: deleting them changes no group's result -/
theorem valsOf_filter_nonneg (rows : List Row) (g : Int) (hg : 0 ≤ g) :
    valsOf (rows.filter (fun r => 0 ≤ r.1)) g = valsOf rows g := by
  unfold valsOf
  rw [List.filter_filter]
  congr 1
  apply List.filter_congr
  intro r _
  by_cases h : r.1 = g
  · subst h; simp [hg]
  · simp [h]

/-! ### splitting -/

theorem splitBy_flatten {α : Type} (xs : List α) (sizes : List Nat) :
    (splitBy xs sizes).flatten = xs.take sizes.sum := by
  induction sizes generalizing xs with
  | nil => simp [splitBy]
  | cons s ss ih =>
    simp only [splitBy, List.flatten_cons, ih, List.sum_cons]
    rw [List.take_add, List.take_drop]

theorem sum_range_split (k c r : Nat) :
    ((List.range k).map fun j => c + (if j < r then 1 else 0)).sum = k * c + min r k := by
  induction k with
  | zero => simp
  | succ k ih =>
    rw [List.range_succ, List.map_append, List.sum_append, ih]
    simp only [List.map_cons, List.map_nil, List.sum_cons, List.sum_nil]
    split <;> simp [Nat.succ_mul] <;> omega

theorem splitSizes_sum (n k : Nat) (hk : 0 < k) : (splitSizes n k).sum = n := by
  unfold splitSizes
  rw [sum_range_split]
  have h1 : n % k < k := Nat.mod_lt _ hk
  have h2 := Nat.div_add_mod n k
  rw [Nat.min_eq_left (by omega)]
  omega

/-- `np.array_split` loses and duplicates nothing: the blocks concatenate to the input -/
theorem arraySplit_flatten {α : Type} (xs : List α) (k : Nat) (hk : 0 < k) :
    (arraySplit xs k).flatten = xs := by
  unfold arraySplit
  rw [splitBy_flatten, splitSizes_sum _ _ hk, List.take_length]

end GV
