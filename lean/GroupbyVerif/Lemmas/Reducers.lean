import GroupbyVerif.Lemmas.Merge

/-! # Per-reducer facts: merge laws (instances of `MergeOK`) and single pass = definition -/

namespace GV

/-- the dtype classes the library supports (numpy widths) -/
def Kind.Supported (k : Kind) : Prop :=
  k = .f ∨ k = .i 8 ∨ k = .i 16 ∨ k = .i 32 ∨ k = .i 64 ∨ k = .u 8 ∨ k = .u 16 ∨ k = .u 32 ∨ k = .u 64 ∨ k = .b

/-- a non-null well-formed cell is a number -/
theorem wf_nonnull_num {k : Kind} {v : Val} (hw : WF k v) (hn : isNull k v = false) : ∃ n, v = .num n := by
  cases v with
  | num n => exact ⟨n, rfl⟩
  | nan => cases k <;> simp [WF, isNull] at hw hn

/-- if a well-formed cell of a supported kind is null, the kind's null value is null too
(i.e. only `f` and `i 64` have nulls, and their fill value is the null) -/
theorem null_init_of_null {k : Kind} (hk : k.Supported) {v : Val} (hw : WF k v) (hn : isNull k v = true) :
    isNull k (nullValue k) = true := by
  rcases hk with h | h | h | h | h | h | h | h | h | h <;> subst h <;> cases v <;>
    simp_all [WF, isNull, nullValue, minInt64] <;> omega

/-! ### the `nanR` family (nanmax, nanmin, first) merged with itself -/

/-- what the merge proofs need from a combiner: it is associative and closed on numbers -/
structure CombOK (comb : Val → Val → Val) : Prop where
  num_closed : ∀ a b : Int, ∃ c, comb (.num a) (.num b) = .num c ∧ (c = a ∨ c = b)
  assoc : ∀ a b c : Int, comb (comb (.num a) (.num b)) (.num c) = comb (.num a) (comb (.num b) (.num c))

theorem vmaxC_ok : CombOK vmaxC := by
  constructor
  · intro a b
    by_cases h : b > a
    · exact ⟨b, by simp [vmaxC, Val.gt, h], Or.inr rfl⟩
    · exact ⟨a, by simp [vmaxC, Val.gt, h], Or.inl rfl⟩
  · intro a b c
    simp only [vmaxC, Val.gt]
    by_cases h1 : b > a <;> by_cases h2 : c > b <;> by_cases h3 : c > a <;>
      simp [h1, h2, h3, Val.gt] <;> omega

theorem vminC_ok : CombOK vminC := by
  constructor
  · intro a b
    by_cases h : b < a
    · exact ⟨b, by simp [vminC, Val.lt, h], Or.inr rfl⟩
    · exact ⟨a, by simp [vminC, Val.lt, h], Or.inl rfl⟩
  · intro a b c
    simp only [vminC, Val.lt]
    by_cases h1 : b < a <;> by_cases h2 : c < b <;> by_cases h3 : c < a <;>
      simp [h1, h2, h3, Val.lt] <;> omega

theorem vfirstC_ok : CombOK vfirstC := by
  constructor
  · intro a b; exact ⟨a, rfl, Or.inl rfl⟩
  · intro a b c; rfl

/-- good partial of a selection-type reducer: empty ⇒ the fill value; non-empty ⇒ a non-null number -/
def GoodSel (k : Kind) (init : Val) (p : Partial) : Prop :=
  0 ≤ p.2 ∧ (p.2 = 0 → p.1 = init) ∧ (p.2 ≠ 0 → ∃ n, p.1 = .num n ∧ isNull k (.num n) = false)

theorem mergeOK_sel (k : Kind) (comb : Val → Val → Val) (hc : CombOK comb) (init : Val) :
    MergeOK (pstep (nanR k comb id)) (mergePair (nanR k comb id)) (init, 0) (GoodSel k init) (WF k) := by
  constructor
  · exact ⟨by simp, by simp, by simp⟩
  · -- good_step
    intro t v ⟨h0, h1, h2⟩ hw
    by_cases hn : isNull k v = true
    · simp only [pstep, nanR, hn, if_true]; exact ⟨h0, h1, h2⟩
    · have hn' : isNull k v = false := by simpa using hn
      obtain ⟨n, rfl⟩ := wf_nonnull_num hw hn'
      by_cases hc0 : t.2 = 0
      · simp only [pstep, nanR, hn', hc0]
        refine ⟨by simp, by simp, fun _ => ⟨n, by simp, hn'⟩⟩
      · obtain ⟨m, hm, hmn⟩ := h2 hc0
        obtain ⟨c, hcc, hor⟩ := hc.num_closed m n
        simp only [pstep, nanR, hn', hm]
        have : (t.2 != 0) = true := by simpa using hc0
        simp only [this, if_true, Bool.false_eq_true, if_false, hcc]
        refine ⟨by simp; omega, by simp; omega, fun _ => ⟨c, rfl, ?_⟩⟩
        rcases hor with h | h <;> subst h <;> assumption
  · -- merge_e
    intro s _; simp [mergePair]
  · -- e_merge
    intro t ⟨h0, h1, h2⟩
    by_cases hc0 : t.2 = 0
    · have := h1 hc0
      simp only [mergePair, hc0, if_true]
      cases t; simp_all
    · obtain ⟨m, hm, hmn⟩ := h2 hc0
      cases t with
      | mk tv tc =>
        simp only at hm hc0
        subst hm
        simp [mergePair, hc0, nanR, hmn]
  · -- comm
    intro s t v ⟨hs0, hs1, hs2⟩ ⟨ht0, ht1, ht2⟩ hw
    by_cases hn : isNull k v = true
    · simp only [pstep, nanR, hn, if_true]
    · have hn' : isNull k v = false := by simpa using hn
      obtain ⟨n, rfl⟩ := wf_nonnull_num hw hn'
      cases s with
      | mk sv sc =>
      cases t with
      | mk tv tc =>
      simp only at hs0 hs1 hs2 ht0 ht1 ht2
      by_cases htc : tc = 0
      · subst htc
        by_cases hsc : sc = 0
        · subst hsc; simp [pstep, nanR, mergePair, hn']
        · have : (sc != 0) = true := by simpa using hsc
          simp [pstep, nanR, mergePair, hn', this, hsc]
      · obtain ⟨m, hm, hmn⟩ := ht2 htc
        subst hm
        obtain ⟨c, hcc, hor⟩ := hc.num_closed m n
        have hcn : isNull k (.num c) = false := by
          rcases hor with h | h <;> subst h <;> assumption
        have htc' : (tc != 0) = true := by simpa using htc
        have htc1 : ¬ (tc + 1 = 0) := by omega
        by_cases hsc : sc = 0
        · subst hsc
          have h1 : ¬ (0 + tc = 0) := by omega
          have h1' : ((0 + tc) != 0) = true := by simpa using h1
          simp [pstep, nanR, mergePair, hn', htc', htc1, htc, hcc, hcn, hmn]
        · obtain ⟨x, hx, hxn⟩ := hs2 hsc
          subst hx
          have hsc' : (sc != 0) = true := by simpa using hsc
          have h1 : ¬ (sc + tc = 0) := by omega
          have h1' : ((sc + tc) != 0) = true := by simpa using h1
          simp only [pstep, nanR, mergePair, hn', htc', htc1, htc, hcc, hcn, hmn, hsc', h1', if_true,
            if_false, Bool.false_eq_true, id]
          rw [← hcc, hc.assoc]
          simp [Int.add_assoc]

/-! ### the sum family (nansum, nansum_squares, sum) merged with the plain `sum` reducer -/

theorem Val.add_assoc (a b c : Val) : (a.add b).add c = a.add (b.add c) := by
  cases a <;> cases b <;> cases c <;> simp [Val.add, Int.add_assoc]

theorem Val.zero_add (a : Val) : (Val.num 0).add a = a := by
  cases a <;> simp [Val.add]

def GoodSum (p : Partial) : Prop := 0 ≤ p.2 ∧ (p.2 = 0 → p.1 = .num 0)

theorem mergeOK_nansum (k : Kind) (comb : Val → Val → Val) (pre : Val → Val)
    (hcomb : ∀ a b, comb a b = a.add (pre b)) :
    MergeOK (pstep (nanR k comb pre)) (mergePair (Scalar.sum k)) (.num 0, 0) GoodSum (fun _ => True) := by
  constructor
  · exact ⟨by simp, by simp⟩
  · intro t v ⟨h0, h1⟩ _
    by_cases hn : isNull k v = true
    · simp only [pstep, nanR, hn, if_true]; exact ⟨h0, h1⟩
    · have hn' : isNull k v = false := by simpa using hn
      by_cases hc0 : t.2 = 0
      · simp only [pstep, nanR, hn', hc0]
        exact ⟨by simp, by simp⟩
      · have : (t.2 != 0) = true := by simpa using hc0
        simp only [pstep, nanR, hn', this]
        exact ⟨by simp; omega, by simp; omega⟩
  · intro s _; simp [mergePair]
  · intro t ⟨h0, h1⟩
    by_cases hc0 : t.2 = 0
    · have := h1 hc0
      cases t; simp_all [mergePair]
    · cases t; simp_all [mergePair, Scalar.sum]
  · intro s t v ⟨hs0, hs1⟩ ⟨ht0, ht1⟩ _
    by_cases hn : isNull k v = true
    · simp only [pstep, nanR, hn, if_true]
    · have hn' : isNull k v = false := by simpa using hn
      cases s with
      | mk sv sc =>
      cases t with
      | mk tv tc =>
      simp only at hs0 hs1 ht0 ht1
      by_cases htc : tc = 0
      · subst htc
        by_cases hsc : sc = 0
        · subst hsc; simp [pstep, nanR, mergePair, hn', Scalar.sum]
        · have : (sc != 0) = true := by simpa using hsc
          simp [pstep, nanR, mergePair, hn', this, hsc, Scalar.sum, hcomb]
      · have htc' : (tc != 0) = true := by simpa using htc
        have htc1 : ¬ (tc + 1 = 0) := by omega
        by_cases hsc : sc = 0
        · subst hsc
          have h1 : ¬ (0 + tc = 0) := by omega
          have h1' : ((0 + tc) != 0) = true := by simpa using h1
          simp [pstep, nanR, mergePair, hn', htc', htc1, htc, Scalar.sum, hcomb]
        · have hsc' : (sc != 0) = true := by simpa using hsc
          have h1 : ¬ (sc + tc = 0) := by omega
          have h1' : ((sc + tc) != 0) = true := by simpa using h1
          simp [pstep, nanR, mergePair, hn', htc', htc1, htc, hsc', h1', Scalar.sum, hcomb,
            Val.add_assoc, Int.add_assoc]

theorem mergeOK_sum (k : Kind) :
    MergeOK (pstep (Scalar.sum k)) (mergePair (Scalar.sum k)) (.num 0, 0) GoodSum (fun _ => True) := by
  constructor
  · exact ⟨by simp, by simp⟩
  · intro t v ⟨h0, h1⟩ _
    by_cases hc0 : t.2 = 0
    · simp only [pstep, Scalar.sum, hc0]; exact ⟨by simp, by simp⟩
    · have : (t.2 != 0) = true := by simpa using hc0
      simp only [pstep, Scalar.sum, this]
      exact ⟨by simp; omega, by simp; omega⟩
  · intro s _; simp [mergePair]
  · intro t ⟨h0, h1⟩
    by_cases hc0 : t.2 = 0
    · have := h1 hc0
      cases t; simp_all [mergePair]
    · cases t; simp_all [mergePair, Scalar.sum]
  · intro s t v ⟨hs0, hs1⟩ ⟨ht0, ht1⟩ _
    cases s with
    | mk sv sc =>
    cases t with
    | mk tv tc =>
    simp only at hs0 hs1 ht0 ht1
    by_cases htc : tc = 0
    · subst htc
      by_cases hsc : sc = 0
      · subst hsc; simp [pstep, mergePair, Scalar.sum]
      · have : (sc != 0) = true := by simpa using hsc
        simp [pstep, mergePair, this, hsc, Scalar.sum]
    · have htc' : (tc != 0) = true := by simpa using htc
      have htc1 : ¬ (tc + 1 = 0) := by omega
      by_cases hsc : sc = 0
      · subst hsc
        have h1 : ¬ (0 + tc = 0) := by omega
        have h1' : ((0 + tc) != 0) = true := by simpa using h1
        simp [pstep, mergePair, htc', htc1, htc, Scalar.sum]
      · have hsc' : (sc != 0) = true := by simpa using hsc
        have h1 : ¬ (sc + tc = 0) := by omega
        have h1' : ((sc + tc) != 0) = true := by simpa using h1
        simp [pstep, mergePair, htc', htc1, htc, hsc', h1', Scalar.sum, Val.add_assoc, Int.add_assoc]

/-! ### counting kernels (size, count): the partial's value *is* its count; merged with `sum` -/

def GoodCnt (p : Partial) : Prop := p.1 = .num p.2 ∧ 0 ≤ p.2

theorem mergeOK_cnt (k : Kind) (red : Red)
    (hred : ∀ v, (∀ cur c, red cur v c = (.num (c + 1), c + 1)) ∨ (∀ cur c, red cur v c = (.num c, c))) :
    MergeOK (pstep red) (mergePair (Scalar.sum k)) (.num 0, 0) GoodCnt (fun _ => True) := by
  have key : ∀ s t : Partial, GoodCnt s → GoodCnt t →
      mergePair (Scalar.sum k) s t = (.num (s.2 + t.2), s.2 + t.2) := by
    intro s t ⟨hs1, hs0⟩ ⟨ht1, ht0⟩
    cases s with
    | mk sv sc =>
    cases t with
    | mk tv tc =>
    simp only at hs1 hs0 ht1 ht0
    subst hs1; subst ht1
    by_cases htc : tc = 0
    · subst htc; simp [mergePair]
    · by_cases hsc : sc = 0
      · subst hsc; simp [mergePair, htc, Scalar.sum]
      · have hsc' : (sc != 0) = true := by simpa using hsc
        simp [mergePair, htc, Scalar.sum, hsc', Val.add]
  have gstep : ∀ t v, GoodCnt t → GoodCnt (pstep red t v) := by
    intro t v ⟨h1, h0⟩
    rcases hred v with h | h <;> simp only [pstep, h, GoodCnt] <;> constructor <;>
      first | rfl | omega | (simp <;> omega)
  constructor
  · exact ⟨rfl, by simp⟩
  · intro t v ht _; exact gstep t v ht
  · intro s _; simp [mergePair]
  · intro t ht
    rw [key _ _ ⟨rfl, by simp⟩ ht]
    obtain ⟨h1, _⟩ := ht
    cases t; simp_all
  · intro s t v hs ht _
    rw [key s _ hs (gstep t v ht), key s t hs ht]
    rcases hred v with h | h <;> simp [pstep, h, Int.add_assoc]

/-! ### `last` merged with `last` (its count counts every row, null or not) -/

def GoodLast (k : Kind) (p : Partial) : Prop :=
  0 ≤ p.2 ∧ (p.2 = 0 → p.1 = nullValue k) ∧ (p.1 = nullValue k ∨ isNull k p.1 = false)

theorem mergeOK_last (k : Kind) (hk : k.Supported) :
    MergeOK (pstep (Scalar.last k)) (mergePair (Scalar.last k)) (nullValue k, 0) (GoodLast k) (WF k) := by
  constructor
  · exact ⟨by simp, by simp, Or.inl rfl⟩
  · intro t v ⟨h0, h1, h2⟩ hw
    by_cases hn : isNull k v = true
    · simp only [pstep, Scalar.last, hn, if_true]
      exact ⟨by simp; omega, by simp; omega, h2⟩
    · have hn' : isNull k v = false := by simpa using hn
      simp only [pstep, Scalar.last, hn']
      exact ⟨by simp; omega, by simp; omega, Or.inr hn'⟩
  · intro s _; simp [mergePair]
  · intro t ⟨h0, h1, h2⟩
    cases t with
    | mk tv tc =>
    simp only at h0 h1 h2
    by_cases hc0 : tc = 0
    · simp [mergePair, hc0, h1 hc0]
    · rcases h2 with h | h
      · subst h
        by_cases hn : isNull k (nullValue k) = true <;> simp [mergePair, hc0, Scalar.last, hn]
      · simp [mergePair, hc0, Scalar.last, h]
  · intro s t v ⟨hs0, hs1, hs2⟩ ⟨ht0, ht1, ht2⟩ hw
    cases s with
    | mk sv sc =>
    cases t with
    | mk tv tc =>
    simp only at hs0 hs1 hs2 ht0 ht1 ht2
    have htc1 : ¬ (tc + 1 = 0) := by omega
    by_cases hn : isNull k v = true
    · have hinit := null_init_of_null hk hw hn
      by_cases htc : tc = 0
      · subst htc
        have := ht1 rfl
        subst this
        simp [pstep, mergePair, Scalar.last, hn, hinit]
      · simp [pstep, mergePair, Scalar.last, hn, htc, htc1, Int.add_assoc]
    · have hn' : isNull k v = false := by simpa using hn
      by_cases htc : tc = 0
      · subst htc
        simp [pstep, mergePair, Scalar.last, hn']
      · simp [pstep, mergePair, Scalar.last, hn', htc, htc1, Int.add_assoc]

/-! ### single pass = per-group definition -/

/-- schema: a closed form `F` that starts at the empty partial and is preserved by one step -/
theorem runRed_eq_of_step (red : Red) (init : Val) (P : Val → Prop) (F : List Val → Partial)
    (h0 : F [] = (init, 0))
    (hs : ∀ xs v, (∀ x ∈ xs, P x) → P v → pstep red (F xs) v = F (xs ++ [v]))
    (vs : List Val) (hv : ∀ v ∈ vs, P v) : runRed red init vs = F vs := by
  suffices H : ∀ (xs ys : List Val), (∀ x ∈ xs, P x) → (∀ y ∈ ys, P y) →
      ys.foldl (pstep red) (F xs) = F (xs ++ ys) by
    have := H [] vs (by simp) hv
    simpa [runRed, h0] using this
  intro xs ys
  induction ys generalizing xs with
  | nil => intros; simp
  | cons y ys ih =>
    intro hx hy
    simp only [List.foldl_cons]
    rw [hs xs y hx (hy y (List.mem_cons_self ..))]
    have := ih (xs ++ [y]) (by
      intro x hx'
      rcases List.mem_append.mp hx' with h | h
      · exact hx x h
      · simp at h; subst h; exact hy _ (List.mem_cons_self ..))
      (fun w hw => hy w (List.mem_cons_of_mem _ hw))
    simpa using this

theorem accOf_snoc (comb : Val → Val → Val) (pre : Val → Val) (init : Val) (xs : List Val) (v : Val) :
    accOf comb pre init (xs ++ [v]) = if xs = [] then pre v else comb (accOf comb pre init xs) v := by
  cases xs with
  | nil => simp [accOf]
  | cons x xs => simp [accOf, List.foldl_append]

/-- the `nanR` family: single pass = fold of the combiner over the non-null values -/
theorem runRed_nanR (k : Kind) (comb : Val → Val → Val) (pre : Val → Val) (init : Val) (vs : List Val) :
    runRed (nanR k comb pre) init vs =
      (accOf comb pre init (nonNull k vs), ((nonNull k vs).length : Int)) := by
  apply runRed_eq_of_step _ _ (fun _ => True) (fun vs => (accOf comb pre init (nonNull k vs), ((nonNull k vs).length : Int)))
  · simp [nonNull, accOf]
  · intro xs v _ _
    rw [nonNull_append]
    by_cases hn : isNull k v = true
    · simp [pstep, nanR, hn, nonNull]
    · have hn' : isNull k v = false := by simpa using hn
      have hv : nonNull k [v] = [v] := by simp [nonNull, hn']
      rw [hv, accOf_snoc]
      by_cases he : nonNull k xs = []
      · simp [pstep, nanR, hn', he]
      · have hl : ((nonNull k xs).length : Int) ≠ 0 := by
          have : (nonNull k xs).length ≠ 0 := by simpa [List.length_eq_zero_iff] using he
          omega
        simp [pstep, nanR, hn', he, hl]
  · intros; trivial

theorem foldl_add_zero (x : Val) (xs : List Val) : xs.foldl Val.add ((Val.num 0).add x) = xs.foldl Val.add x := by
  rw [Val.zero_add]

theorem accOf_add (nn : List Val) : accOf Val.add id (.num 0) nn = sumVals nn := by
  cases nn with
  | nil => rfl
  | cons x xs => simp [accOf, sumVals, Val.zero_add]

theorem accOf_addSq (nn : List Val) : accOf vaddSq Val.sq (.num 0) nn = sumSqVals nn := by
  cases nn with
  | nil => rfl
  | cons x xs => simp [accOf, sumSqVals, vaddSq, Val.zero_add]

theorem foldl_first (x : Val) (xs : List Val) : xs.foldl vfirstC x = x := by
  induction xs with
  | nil => rfl
  | cons y ys ih => simpa [vfirstC] using ih

theorem accOf_first (init : Val) (nn : List Val) : accOf vfirstC id init nn = nn.head?.getD init := by
  cases nn with
  | nil => rfl
  | cons x xs => simp [accOf, foldl_first]

theorem runRed_sum (k : Kind) (vs : List Val) :
    runRed (Scalar.sum k) (.num 0) vs = (sumVals vs, (vs.length : Int)) := by
  apply runRed_eq_of_step _ _ (fun _ => True) (fun vs => (sumVals vs, (vs.length : Int)))
  · simp [sumVals]
  · intro xs v _ _
    by_cases he : xs = []
    · subst he; simp [pstep, Scalar.sum, sumVals, Val.zero_add]
    · have hl : ((xs.length : Int) != 0) = true := by
        have : xs.length ≠ 0 := by simpa [List.length_eq_zero_iff] using he
        simp; omega
      simp [pstep, Scalar.sum, hl, sumVals, List.foldl_append]
  · intros; trivial

theorem runRed_count (k : Kind) (vs : List Val) :
    runRed (Scalar.count k) (.num 0) vs = (.num vs.length, (vs.length : Int)) := by
  apply runRed_eq_of_step _ _ (fun _ => True) (fun vs => (Val.num vs.length, (vs.length : Int)))
  · simp
  · intro xs v _ _; simp [pstep, Scalar.count, Val.ofInt]
  · intros; trivial

theorem runRed_nancount (k : Kind) (vs : List Val) :
    runRed (Scalar.nancount k) (.num 0) vs = (.num (nonNull k vs).length, ((nonNull k vs).length : Int)) := by
  apply runRed_eq_of_step _ _ (fun _ => True)
    (fun vs => (Val.num (nonNull k vs).length, ((nonNull k vs).length : Int)))
  · simp [nonNull]
  · intro xs v _ _
    rw [nonNull_append]
    by_cases hn : isNull k v = true
    · simp [pstep, Scalar.nancount, hn, nonNull, Val.ofInt]
    · have hn' : isNull k v = false := by simpa using hn
      simp [pstep, Scalar.nancount, hn', nonNull, Val.ofInt]
  · intros; trivial

theorem runRed_last (k : Kind) (vs : List Val) :
    runRed (Scalar.last k) (nullValue k) vs =
      ((nonNull k vs).getLast?.getD (nullValue k), (vs.length : Int)) := by
  apply runRed_eq_of_step _ _ (fun _ => True)
    (fun vs => ((nonNull k vs).getLast?.getD (nullValue k), (vs.length : Int)))
  · simp [nonNull]
  · intro xs v _ _
    rw [nonNull_append]
    by_cases hn : isNull k v = true
    · simp [pstep, Scalar.last, hn, nonNull]
    · have hn' : isNull k v = false := by simpa using hn
      simp [pstep, Scalar.last, hn', nonNull]
  · intros; trivial

end GV
