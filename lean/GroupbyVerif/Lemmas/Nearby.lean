import GroupbyVerif.Model.Nearby

/-!
# `group_nearby_members`: what the output of every row is

`nearby_spec`: a null-key row gets `-1`; a row of group `g` gets the number of the group's previous row when it lies
within `max_diff` of it (`abs(v - v_prev) > max_diff` false - also when the difference is NaN), and otherwise a new
number, one more than every number handed out before.  `nearby_drop_null`: deleting the null-key rows changes no other
row's output.
-/

namespace GV

theorem aset_app {α : Type} (a : Int → α) (i j : Int) (x : α) : aset a i x j = if j = i then x else a j := rfl

theorem list_reverse_induction {α : Type} (P : List α → Prop) (h0 : P [])
    (hs : ∀ l x, P l → P (l ++ [x])) : ∀ l, P l := by
  intro l
  rw [← List.reverse_reverse l]
  induction l.reverse with
  | nil => exact h0
  | cons x xs ih => rw [List.reverse_cons]; exact hs _ _ ih

/-- index and value of the last row of group `g` -/
def lastSame (rows : List (Int × Val)) (g : Int) : Option (Nat × Val) :=
  ((rows.zipIdx.filter (fun p => p.1.1 = g)).getLast?).map (fun p => (p.2, p.1.2))

/-- the largest number handed out so far (`-1` before the first) -/
def maxSoFar (outs : List Int) : Int := outs.foldl max (-1)

theorem nearbyRun_append (d : Val) (P : List (Int × Val)) (r : Int × Val) :
    nearbyRun d (P ++ [r]) = ((nearbyStep d (nearbyRun d P).1 r).1, (nearbyRun d P).2 ++ [(nearbyStep d (nearbyRun d P).1 r).2]) := by
  simp [nearbyRun, List.foldl_append]

theorem nearbyRun_length (d : Val) (P : List (Int × Val)) : (nearbyRun d P).2.length = P.length := by
  induction P using list_reverse_induction with
  | h0 => rfl
  | hs l x ih => rw [nearbyRun_append]; simp [ih]

theorem maxSoFar_append (O : List Int) (x : Int) : maxSoFar (O ++ [x]) = max (maxSoFar O) x := by
  simp [maxSoFar, List.foldl_append]

theorem maxSoFar_ge (O : List Int) : -1 ≤ maxSoFar O := by
  induction O using list_reverse_induction with
  | h0 => simp [maxSoFar]
  | hs l x ih => rw [maxSoFar_append]; omega

theorem le_maxSoFar (O : List Int) (j : Nat) (o : Int) (h : O[j]? = some o) : o ≤ maxSoFar O := by
  induction O using list_reverse_induction with
  | h0 => simp at h
  | hs l x ih =>
    rw [maxSoFar_append]
    rcases Nat.lt_or_ge j l.length with hlt | hge
    · rw [List.getElem?_append_left hlt] at h
      have := ih h; omega
    · rw [List.getElem?_append_right hge] at h
      have : j - l.length = 0 := by
        rcases Nat.eq_zero_or_pos (j - l.length) with e | e
        · exact e
        · rw [List.getElem?_eq_none_iff.mpr (by simp; omega)] at h; simp at h
      rw [this] at h
      simp at h
      omega

theorem lastSame_append (P : List (Int × Val)) (r : Int × Val) (g : Int) :
    lastSame (P ++ [r]) g = if r.1 = g then some (P.length, r.2) else lastSame P g := by
  unfold lastSame
  rw [List.zipIdx_append, List.filter_append]
  simp only [List.zipIdx_cons, List.zipIdx_nil, Nat.zero_add]
  by_cases e : r.1 = g
  · simp [List.filter_cons, e]
  · simp [List.filter_cons, e]

theorem lastSame_lt (P : List (Int × Val)) (g : Int) (j : Nat) (v : Val) (h : lastSame P g = some (j, v)) :
    j < P.length := by
  induction P using list_reverse_induction with
  | h0 => simp [lastSame] at h
  | hs l x ih =>
    rw [lastSame_append] at h
    split at h
    · simp at h; simp; omega
    · have := ih h; simp; omega

/-- what the state remembers after a prefix of the rows -/
def NearbyInv (P : List (Int × Val)) (st : NearbySt) (O : List Int) : Prop :=
  (∀ g : Int, 0 ≤ g → st.seen g = (lastSame P g).isSome) ∧
  (∀ (g : Int) (j : Nat) (v : Val), 0 ≤ g → lastSame P g = some (j, v) → st.last g = v ∧ O[j]? = some (st.tracker g)) ∧
  st.counter = maxSoFar O

theorem nearby_inv (d : Val) (P : List (Int × Val)) : NearbyInv P (nearbyRun d P).1 (nearbyRun d P).2 := by
  induction P using list_reverse_induction with
  | h0 =>
    refine ⟨fun g _ => by simp [nearbyRun, nearbyInit, lastSame], fun g j v _ h => by simp [lastSame] at h, ?_⟩
    simp [nearbyRun, nearbyInit, maxSoFar]
  | hs P r ih =>
    rw [nearbyRun_append]
    have hlen := nearbyRun_length d P
    generalize nearbyRun d P = run at ih hlen
    obtain ⟨st, O⟩ := run
    obtain ⟨i1, i2, i3⟩ := ih
    simp only at i1 i2 i3 hlen ⊢
    obtain ⟨key, v⟩ := r
    by_cases hk : key < 0
    · -- a null-key row: the state is untouched, `-1` is appended
      simp only [nearbyStep, hk, if_true]
      refine ⟨fun g hg => ?_, fun g j w hg h => ?_, ?_⟩
      · rw [lastSame_append]; simp only [show ¬ key = g by omega, if_false]; exact i1 g hg
      · rw [lastSame_append] at h; simp only [show ¬ key = g by omega, if_false] at h
        obtain ⟨a, b⟩ := i2 g j w hg h
        refine ⟨a, ?_⟩
        rw [List.getElem?_append_left (by have := lastSame_lt P g j w h; omega)]; exact b
      · rw [maxSoFar_append, i3]; have := maxSoFar_ge O; omega
    · have hk0 : 0 ≤ key := by omega
      simp only [nearbyStep, hk, if_false]
      have hOj : ∀ (g : Int) (j : Nat) (w : Val), lastSame P g = some (j, w) → j < O.length := by
        intro g j w h; have := lastSame_lt P g j w h; omega
      refine ⟨fun g hg => ?_, fun g j w hg h => ?_, ?_⟩
      · rw [lastSame_append]
        by_cases e : key = g
        · subst e
          rcases Bool.eq_false_or_eq_true (st.seen key) with hs | hs <;> simp [hs, aset_app]
        · have e' : ¬ g = key := fun h => e h.symm
          simp only [e, if_false]
          rw [← i1 g hg]
          rcases Bool.eq_false_or_eq_true (st.seen key) with hs | hs <;> simp [hs, aset_app, e']
      · rw [lastSame_append] at h
        by_cases e : key = g
        · subst e
          simp only [if_true, Option.some.injEq, Prod.mk.injEq] at h
          obtain ⟨rfl, rfl⟩ := h
          refine ⟨by simp [aset_app], ?_⟩
          rw [List.getElem?_append_right (by omega)]
          simp [hlen]
        · have e' : ¬ g = key := fun h => e h.symm
          simp only [e, if_false] at h
          obtain ⟨a, b⟩ := i2 g j w hg h
          refine ⟨by simp [aset_app, e', a], ?_⟩
          rw [List.getElem?_append_left (hOj g j w h), b]
          rcases Bool.eq_false_or_eq_true (nearbyFresh d st (key, v)) with hf | hf <;> simp [hf, aset_app, e']
      · rw [maxSoFar_append]
        rcases Bool.eq_false_or_eq_true (nearbyFresh d st (key, v)) with hf | hf
        · simp only [hf, if_true, aset_app]; omega
        · -- not a new sub-group: the group was seen, the number is an old one
          simp only [hf, Bool.false_eq_true, if_false]
          have hseen : st.seen key = true := by
            rcases Bool.eq_false_or_eq_true (st.seen key) with hs | hs
            · exact hs
            · simp [nearbyFresh, hs] at hf
          rw [i1 key hk0] at hseen
          obtain ⟨⟨j, w⟩, hjw⟩ := Option.isSome_iff_exists.mp hseen
          have := le_maxSoFar O j _ (i2 key j w hk0 hjw).2
          omega

/-- outputs of a prefix are a prefix of the outputs -/
theorem nearbyRun_prefix (d : Val) (A B : List (Int × Val)) :
    (nearbyRun d (A ++ B)).2.take A.length = (nearbyRun d A).2 := by
  induction B using list_reverse_induction with
  | h0 => simp [List.take_of_length_le, nearbyRun_length]
  | hs l x ih =>
    rw [← List.append_assoc, nearbyRun_append]
    simp only
    rw [List.take_append_of_le_length (by rw [nearbyRun_length]; simp), ih]

theorem nearby_getElem (d : Val) (rows : List (Int × Val)) (i : Nat) (r : Int × Val) (hi : rows[i]? = some r) :
    (nearby d rows).take i = nearby d (rows.take i) ∧
      (nearby d rows)[i]? = some (nearbyStep d (nearbyRun d (rows.take i)).1 r).2 := by
  have hlt : i < rows.length := by
    rcases Nat.lt_or_ge i rows.length with h | h
    · exact h
    · rw [List.getElem?_eq_none_iff.mpr h] at hi; simp at hi
  have hr : rows[i] = r := by rw [List.getElem?_eq_getElem hlt] at hi; simpa using hi
  have hsplit : rows = (rows.take i ++ [r]) ++ rows.drop (i + 1) := by
    rw [← hr, ← List.take_succ_eq_append_getElem hlt, List.take_append_drop]
  have hlen : (rows.take i).length = i := by simp; omega
  constructor
  · have := nearbyRun_prefix d (rows.take i) (rows.drop i)
    rw [List.take_append_drop, hlen] at this
    exact this
  · have h1 := nearbyRun_prefix d (rows.take i ++ [r]) (rows.drop (i + 1))
    rw [← hsplit, nearbyRun_append] at h1
    simp only [List.length_append, List.length_cons, List.length_nil, hlen] at h1
    have h2 : ((nearby d rows).take (i + 1))[i]? = (nearby d rows)[i]? := by
      rw [List.getElem?_take]; simp
    unfold nearby at h2 ⊢
    rw [← h2, h1, List.getElem?_append_right (by rw [nearbyRun_length, hlen]; omega), nearbyRun_length, hlen]
    simp

/-- **the output of every row** -/
theorem nearby_spec (d : Val) (rows : List (Int × Val)) (i : Nat) (g : Int) (v : Val) (hi : rows[i]? = some (g, v)) :
    let outs := nearby d rows
    (g < 0 → outs[i]? = some (-1)) ∧
    (0 ≤ g → match lastSame (rows.take i) g with
      | none => outs[i]? = some (maxSoFar (outs.take i) + 1)
      | some (j, vj) =>
        if Val.gt (Val.abs (Val.sub v vj)) d then outs[i]? = some (maxSoFar (outs.take i) + 1)
        else outs[i]? = outs[j]?) := by
  intro outs
  obtain ⟨hpre, hout⟩ := nearby_getElem d rows i (g, v) hi
  have hinv := nearby_inv d (rows.take i)
  show ((g < 0 → (nearby d rows)[i]? = some (-1)) ∧ _)
  rw [hout]
  constructor
  · intro hg; simp [nearbyStep, hg]
  · intro hg
    show match lastSame (rows.take i) g with
      | none => _ = some (maxSoFar ((nearby d rows).take i) + 1)
      | some (j, vj) => if Val.gt (Val.abs (Val.sub v vj)) d then _ = some (maxSoFar ((nearby d rows).take i) + 1)
          else _ = (nearby d rows)[j]?
    rw [hpre]
    have hpre' : (nearbyRun d rows).2.take i = (nearbyRun d (rows.take i)).2 := hpre
    unfold nearby
    generalize nearbyRun d (rows.take i) = run at hinv hpre'
    obtain ⟨st, O⟩ := run
    obtain ⟨i1, i2, i3⟩ := hinv
    simp only at i1 i2 i3 hpre' ⊢
    have hng : ¬ g < 0 := by omega
    cases hl : lastSame (rows.take i) g with
    | none =>
      have hs : st.seen g = false := by rw [i1 g hg, hl]; rfl
      simp [nearbyStep, hng, nearbyFresh, hs, aset_app, i3]
    | some jv =>
      obtain ⟨j, vj⟩ := jv
      have hs : st.seen g = true := by rw [i1 g hg, hl]; rfl
      obtain ⟨a, b⟩ := i2 g j vj hg hl
      simp only [nearbyStep, hng, if_false, nearbyFresh, hs, Bool.not_true, Bool.false_eq_true, a]
      rcases Bool.eq_false_or_eq_true (Val.gt (Val.abs (Val.sub v vj)) d) with hf | hf
      · simp [hf, aset_app, i3]
      · simp only [hf, Bool.false_eq_true, if_false]
        have hjlt : j < i := by have := lastSame_lt _ g j vj hl; simp at this; omega
        have : (nearbyRun d rows).2[j]? = O[j]? := by
          have h := congrArg (fun l => l[j]?) hpre'
          simp only [List.getElem?_take, hjlt, if_true] at h
          exact h
        rw [this, b]

/-- **null-key rows are inert**: the state after the rows equals the state after the rows with the null-key rows
deleted, and the outputs of the kept rows are the same -/
theorem nearbyRun_drop_null (d : Val) (rows : List (Int × Val)) :
    (nearbyRun d (rows.filter (fun r => decide (0 ≤ r.1)))).1 = (nearbyRun d rows).1 ∧
    (nearbyRun d (rows.filter (fun r => decide (0 ≤ r.1)))).2
      = ((rows.zip (nearbyRun d rows).2).filter (fun p => decide (0 ≤ p.1.1))).map (·.2) := by
  induction rows using list_reverse_induction with
  | h0 => simp [nearbyRun]
  | hs P r ih =>
    obtain ⟨ih1, ih2⟩ := ih
    rw [List.filter_append, nearbyRun_append]
    simp only
    rw [List.zip_append (by rw [nearbyRun_length])]
    simp only [List.filter_append, List.map_append, ← ih2]
    by_cases hk : r.1 < 0
    · have : decide (0 ≤ r.1) = false := by simp; omega
      simp [List.filter_cons, this, nearbyStep, hk, ih1]
    · have : decide (0 ≤ r.1) = true := by simp; omega
      simp only [List.filter_cons, this, if_true, List.filter_nil]
      rw [nearbyRun_append, ih1]
      simp [this]

end GV
