import GroupbyVerif.Model.RowSel
import GroupbyVerif.Lemmas.Fold

/-! # Lemmas for the row-selection kernels (single group) -/

namespace GV

theorem wrapS_id (w : Nat) (hw : 0 < w) (x : Int) (h0 : -(2 ^ (w - 1) : Int) ≤ x) (h1 : x < 2 ^ (w - 1)) :
    wrapS w x = x := by
  unfold wrapS
  have hp : (2 : Int) ^ w = 2 * 2 ^ (w - 1) := by
    have : w = (w - 1) + 1 := by omega
    conv => lhs; rw [this, Int.pow_succ]
    omega
  have : (x + 2 ^ (w - 1)) % 2 ^ w = x + 2 ^ (w - 1) := by
    apply Int.emod_eq_of_lt <;> omega
  omega

theorem nthRun_gen (w : Nat) (hw : 0 < w) (n : Nat) (done rest : List Nat)
    (hlen : ((done ++ rest).length : Int) < 2 ^ (w - 1)) :
    rest.foldl (nthStep w n) ⟨nthSpec n done, done.length, false⟩
      = ⟨nthSpec n (done ++ rest), (done ++ rest).length, false⟩ := by
  induction rest generalizing done with
  | nil => simp
  | cons p ps ih =>
    simp only [List.foldl_cons]
    have hstep : nthStep w n ⟨nthSpec n done, done.length, false⟩ p
        = ⟨nthSpec n (done ++ [p]), (done ++ [p]).length, false⟩ := by
      have hlen' : ((done.length : Int) + 1) < 2 ^ (w - 1) := by
        simp only [List.length_append, List.length_cons] at hlen; omega
      have hpow : (0 : Int) < 2 ^ (w - 1) := Int.pow_pos (by decide)
      have hwrap : wrapS w ((done.length : Int) + 1) = (done.length : Int) + 1 :=
        wrapS_id w hw _ (by omega) hlen'
      simp only [nthStep, hwrap, List.length_append, List.length_singleton, Int.natCast_add, Int.natCast_one]
      by_cases he : (done.length : Int) = (n : Int)
      · have he' : done.length = n := by omega
        have hnone : done[n]? = none := by simp; omega
        simp [he, nthSpec, ← he', hnone]
      · have hne : done.length ≠ n := by omega
        simp only [he, if_false, nthSpec, decide_false, Bool.false_and, Bool.or_false]
        by_cases hlt : n < done.length
        · simp [List.getElem?_append_left hlt]
        · have : done.length < n := by omega
          have h1 : done[n]? = none := by simp; omega
          have h2 : (done ++ [p])[n]? = none := by simp; omega
          simp [h1, h2]
    rw [hstep]
    have := ih (done ++ [p]) (by simpa using hlen)
    simpa using this

/-- under the counter-width bound the single-group scan returns the n-th visited position -/
theorem nthRun_eq (w : Nat) (hw : 0 < w) (n : Nat) (ps : List Nat) (hlen : (ps.length : Int) < 2 ^ (w - 1)) :
    ps.foldl (nthStep w n) nthInit = ⟨nthSpec n ps, ps.length, false⟩ := by
  have := nthRun_gen w hw n [] ps (by simpa using hlen)
  simpa [nthSpec, nthInit] using this

/-! ### first / last n -/

theorem setSlot_pad (n : Nat) (l : List Int) (i : Nat) (hl : l.length < n) :
    setSlot (padTo n l) (l.length : Int) i = padTo n (l ++ [(i : Int)]) := by
  have hlen : (padTo n l).length = n := by simp [padTo]; omega
  have hq : normIdx (padTo n l).length (l.length : Int) = (l.length : Int) := by
    have : ¬ ((l.length : Int) < 0) := by omega
    simp [normIdx, this]
  simp only [setSlot, hq]
  have : ¬ ((l.length : Int) < 0) := by omega
  simp only [this, if_false, Int.toNat_natCast]
  unfold padTo
  have h1 : n - l.length = (n - (l ++ [(i : Int)]).length) + 1 := by simp; omega
  rw [h1, List.replicate_succ]
  rw [List.set_append_right _ _ (Nat.le_refl _)]
  simp

/-- closed form of the single-group state after visiting `done` -/
def flClosed (n : Nat) (done : List Nat) : FLSt :=
  { slots := padTo n ((done.take n).map Int.ofNat), seen := ((min done.length n : Nat) : Int) }

theorem flStep_closed (w : Nat) (hw : 0 < w) (n : Nat) (hn : (n : Int) < 2 ^ (w - 1)) (done : List Nat) (p : Nat) :
    flStep w n (flClosed n done) p = flClosed n (done ++ [p]) := by
  unfold flClosed
  by_cases hfull : done.length < n
  · have hmin : min done.length n = done.length := Nat.min_eq_left (by omega)
    have htake : done.take n = done := List.take_of_length_le (by omega)
    have htake' : (done ++ [p]).take n = done ++ [p] := List.take_of_length_le (by simp; omega)
    have hmin' : min (done ++ [p]).length n = done.length + 1 := by simp; omega
    have hlt : ((done.length : Nat) : Int) < (n : Int) := by omega
    rw [hmin, htake, htake', hmin']
    simp only [flStep, hlt, if_true]
    have hl : (done.map Int.ofNat).length < n := by simpa using hfull
    have := setSlot_pad n (done.map Int.ofNat) p hl
    simp only [List.length_map] at this
    rw [this]
    have hpow : (0 : Int) < 2 ^ (w - 1) := Int.pow_pos (by decide)
    rw [wrapS_id w hw _ (by omega) (by omega)]
    simp
  · have hmin : min done.length n = n := Nat.min_eq_right (by omega)
    have hmin' : min (done ++ [p]).length n = n := by simp; omega
    have htake' : (done ++ [p]).take n = done.take n := by
      rw [List.take_append_of_le_length (by omega)]
    rw [hmin, hmin', htake']
    simp [flStep]

theorem flRun_gen (w : Nat) (hw : 0 < w) (n : Nat) (hn : (n : Int) < 2 ^ (w - 1)) (done rest : List Nat) :
    rest.foldl (flStep w n) (flClosed n done) = flClosed n (done ++ rest) := by
  induction rest generalizing done with
  | nil => simp
  | cons p ps ih =>
    simp only [List.foldl_cons]
    rw [flStep_closed w hw n hn, ih]
    simp

theorem flRun_eq (w : Nat) (hw : 0 < w) (n : Nat) (hn : (n : Int) < 2 ^ (w - 1)) (ps : List Nat) :
    ps.foldl (flStep w n) (flInit n) = flClosed n ps := by
  have := flRun_gen w hw n hn [] ps
  simpa [flInit, flClosed, padTo] using this

/-! ### the scan visits a group's positions in ascending (forward) / descending (backward) order -/

theorem scan_positions (codes : List Int) (forward : Bool) (g : Int) :
    (((scanRows codes forward).filter (fun r => r.1 = g)).map (·.2))
      = if forward then posOfGroup codes g else (posOfGroup codes g).reverse := by
  unfold scanRows posOfGroup
  cases forward <;> simp [List.filter_reverse, List.map_reverse]

theorem posOfGroup_length_le (codes : List Int) (g : Int) : (posOfGroup codes g).length ≤ codes.length := by
  unfold posOfGroup
  rw [List.length_map]
  have := List.length_filter_le (fun p : Int × Nat => decide (p.1 = g)) codes.zipIdx
  simpa using this

end GV
