import GroupbyVerif.Model.Factorize

/-! # Lemmas about first-appearance factorization -/

namespace GV

variable {κ : Type} [DecidableEq κ]

theorem mem_dedup (x : κ) (xs : List κ) : x ∈ dedup xs ↔ x ∈ xs := by
  induction xs with
  | nil => simp [dedup]
  | cons y ys ih =>
    simp only [dedup, List.mem_cons, List.mem_filter, ih]
    by_cases h : x = y <;> simp [h]

/-- de-duplication of a list extended by one element -/
theorem dedup_concat (xs : List κ) (x : κ) :
    dedup (xs ++ [x]) = if x ∈ xs then dedup xs else dedup xs ++ [x] := by
  induction xs with
  | nil => simp [dedup]
  | cons a xs ih =>
    simp only [List.cons_append, dedup, ih]
    by_cases hx : x ∈ xs
    · simp [hx]
    · simp only [hx, if_false, List.filter_append]
      by_cases ha : x = a
      · subst ha; simp [dedup]
      · have : (a = x) = False := by simp; exact fun h => ha h.symm
        simp [ha, hx, this]

theorem nodup_dedup (xs : List κ) : (dedup xs).Nodup := by
  induction xs with
  | nil => simp [dedup]
  | cons y ys ih =>
    simp only [dedup]
    rw [List.nodup_cons]
    constructor
    · simp [List.mem_filter]
    · exact List.Nodup.sublist List.filter_sublist ih

/-- index of an element in a duplicate-free list is injective -/
theorem idxOf_inj {l : List κ} {a b : κ} (ha : a ∈ l) (hb : b ∈ l) (h : l.idxOf a = l.idxOf b) : a = b := by
  have h1 := List.getElem_idxOf (List.idxOf_lt_length_of_mem ha)
  have h2 := List.getElem_idxOf (List.idxOf_lt_length_of_mem hb)
  rw [← h1, ← h2]
  congr 1

theorem getElem?_idxOf {l : List κ} {a : κ} (ha : a ∈ l) : l[l.idxOf a]? = some a := by
  rw [List.getElem?_eq_getElem (List.idxOf_lt_length_of_mem ha)]
  simp

theorem key_mem_labels {keys : List (Option κ)} {x : κ} (h : some x ∈ keys) :
    x ∈ (factorizeFirst keys).2 := by
  simp only [factorizeFirst, mem_dedup, List.mem_filterMap, id]
  exact ⟨some x, h, rfl⟩

theorem codeOf_neg_iff (labels : List κ) (key : Option κ) : codeOf labels key < 0 ↔ key = none := by
  cases key with
  | none => simp [codeOf]
  | some x => simp [codeOf]

theorem codeOf_eq_neg_one_iff (labels : List κ) (key : Option κ) : codeOf labels key = -1 ↔ key = none := by
  cases key with
  | none => simp [codeOf]
  | some x => simp [codeOf]

end GV
