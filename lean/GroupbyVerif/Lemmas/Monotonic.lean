import GroupbyVerif.Model.Factorize

/-!
# `_monotonic_factorization`: run detection on the sorted, null-free prefix (C02)
-/

namespace GV.Mono
open GV

variable {α : Type} (key : α → Nat) (isNull : α → Bool)

/-- the comparisons of the source agree with the strict order of `key` on non-null elements
(with a null on either side they may answer anything - IEEE: false) -/
def OrderOK (lt gt : α → α → Bool) : Prop :=
  ∀ a b, isNull a = false → isNull b = false → (lt a b = decide (key a < key b) ∧ gt a b = decide (key a > key b))

/-- what the run detection must deliver for the input `xs` -/
structure Post (xs : List α) (r : Nat × List Nat × List α) : Prop where
  cut_le : r.1 ≤ xs.length
  codes_len : r.2.1.length = r.1
  nullfree : ∀ a ∈ xs.take r.1, isNull a = false
  sorted : (xs.take r.1).Pairwise (fun a b => key a ≤ key b)
  labels_inc : r.2.2.Pairwise (fun a b => key a < key b)
  faithful : ∀ j, j < r.1 → ∃ c l x, r.2.1[j]? = some c ∧ r.2.2[c]? = some l ∧ xs[j]? = some x ∧ key l = key x
  maximal : r.1 < xs.length → 0 < r.1 → ∃ x y, xs[r.1]? = some x ∧ xs[r.1 - 1]? = some y ∧ (isNull x = true ∨ key x < key y)

/-- loop invariant of `go` after the prefix `q ++ [prev]` (accumulators are kept reversed) -/
structure Acc (q : List α) (prev : α) (i : Nat) (codes : List Nat) (labels : List α) : Prop where
  ilen : i = q.length + 1
  nullfree : ∀ a ∈ q ++ [prev], isNull a = false
  sorted : (q ++ [prev]).Pairwise (fun a b => key a ≤ key b)
  codes_len : codes.length = q.length + 1
  lab_head : ∃ l, labels.head? = some l ∧ key l = key prev
  labels_inc : labels.reverse.Pairwise (fun a b => key a < key b)
  faithful : ∀ j, j < q.length + 1 → ∃ c l x, codes.reverse[j]? = some c ∧ labels.reverse[c]? = some l ∧ (q ++ [prev])[j]? = some x ∧ key l = key x

theorem pairwise_snoc {β : Type} (R : β → β → Prop) (l : List β) (x : β) (h : l.Pairwise R) (hx : ∀ a ∈ l, R a x) :
    (l ++ [x]).Pairwise R := by
  rw [List.pairwise_append]
  exact ⟨h, by simp, by intro a ha b hb; simp at hb; subst hb; exact hx a ha⟩

theorem le_last (q : List α) (prev : α) (hs : (q ++ [prev]).Pairwise (fun a b => key a ≤ key b)) :
    ∀ a ∈ q ++ [prev], key a ≤ key prev := by
  intro a ha
  rw [List.pairwise_append] at hs
  rcases List.mem_append.mp ha with h | h
  · exact hs.2.2 a h prev (by simp)
  · simp at h; subst h; exact Nat.le_refl _

theorem go_post (lt gt : α → α → Bool) (hord : OrderOK key isNull lt gt) (prev : α) (i : Nat) (codes : List Nat) (labels : List α) (q ys : List α)
    (acc : Acc key isNull q prev i codes labels) :
    Post key isNull (q ++ [prev] ++ ys) (monotonicFactorization.go lt gt isNull prev i codes labels ys) := by
  induction ys generalizing prev i codes labels q with
  | nil =>
    have hi := acc.ilen
    subst hi
    simp only [monotonicFactorization.go, List.append_nil]
    have htk : (q ++ [prev]).take (q.length + 1) = q ++ [prev] := by
      apply List.take_of_length_le; simp
    refine ⟨by simp, by simp [acc.codes_len], ?_, ?_, acc.labels_inc, ?_, ?_⟩
    · intro a ha; exact acc.nullfree a ((List.take_sublist _ _).subset ha)
    · show ((q ++ [prev]).take (q.length + 1)).Pairwise _
      rw [htk]; exact acc.sorted
    · intro j hj
      exact acc.faithful j hj
    · intro h; simp at h
  | cons y ys ih =>
    have hi := acc.ilen
    subst hi
    have hlen : (q ++ [prev]).length = q.length + 1 := by simp
    have hyidx : (q ++ [prev] ++ y :: ys)[q.length + 1]? = some y := by
      rw [List.getElem?_append_right (by omega)]; simp
    have hpidx : (q ++ [prev] ++ y :: ys)[q.length + 1 - 1]? = some prev := by
      rw [List.getElem?_append_left (by omega)]
      simp
    have htake : (q ++ [prev] ++ y :: ys).take (q.length + 1) = q ++ [prev] := by
      rw [List.take_append_of_le_length (by omega)]
      apply List.take_of_length_le; simp
    have hprevnn : isNull prev = false := acc.nullfree prev (by simp)
    unfold monotonicFactorization.go
    by_cases hstop : (lt y prev || isNull y) = true
    · simp only [hstop, if_true]
      refine ⟨by simp, by simp [acc.codes_len], ?_, ?_, acc.labels_inc, ?_, ?_⟩
      · intro a ha
        have ha' : a ∈ (q ++ [prev] ++ y :: ys).take (q.length + 1) := ha
        rw [htake] at ha'; exact acc.nullfree a ha'
      · show ((q ++ [prev] ++ y :: ys).take (q.length + 1)).Pairwise _
        rw [htake]; exact acc.sorted
      · intro j hj
        have hj' : j < q.length + 1 := hj
        obtain ⟨c, l, x, h1, h2, h3, h4⟩ := acc.faithful j hj'
        refine ⟨c, l, x, h1, h2, ?_, h4⟩
        rw [List.getElem?_append_left (by simp; omega)]
        exact h3
      · intro _ _
        refine ⟨y, prev, hyidx, hpidx, ?_⟩
        by_cases hyn : isNull y = true
        · left; exact hyn
        · right
          have hyn' : isNull y = false := by simpa using hyn
          simp only [hyn', Bool.or_false] at hstop
          rw [(hord y prev hyn' hprevnn).1] at hstop
          simpa using hstop
    · have hstop' : (lt y prev || isNull y) = false := by simpa using hstop
      simp only [hstop', Bool.false_eq_true, if_false]
      simp only [Bool.or_eq_false_iff] at hstop'
      obtain ⟨hge0, hnn⟩ := hstop'
      have hge : ¬ key y < key prev := by
        rw [(hord y prev hnn hprevnn).1] at hge0
        simpa using hge0
      have hreassoc : q ++ [prev] ++ y :: ys = (q ++ [prev]) ++ [y] ++ ys := by simp
      obtain ⟨lh, hlh1, hlh2⟩ := acc.lab_head
      have hlab_ne : labels ≠ [] := by intro h; subst h; simp at hlh1
      have hnull' : ∀ a ∈ (q ++ [prev]) ++ [y], isNull a = false := by
        intro a ha
        rcases List.mem_append.mp ha with h | h
        · exact acc.nullfree a h
        · simp at h; subst h; exact hnn
      have hsorted' : ((q ++ [prev]) ++ [y]).Pairwise (fun a b => key a ≤ key b) :=
        pairwise_snoc _ _ _ acc.sorted (fun a ha => Nat.le_trans (le_last key q prev acc.sorted a ha) (by omega))
      have hgtK := (hord y prev hnn hprevnn).2
      by_cases hgt : gt y prev = true
      · -- a new label
        simp only [hgt, if_true]
        rw [hreassoc]
        apply ih y (q.length + 1 + 1) (labels.length :: codes) (y :: labels) (q ++ [prev])
        refine ⟨by simp, hnull', hsorted', by simp [acc.codes_len], ⟨y, rfl, rfl⟩, ?_, ?_⟩
        · simp only [List.reverse_cons]
          apply pairwise_snoc _ _ _ acc.labels_inc
          intro a ha
          -- every earlier label is at most the last label = key prev < key y
          have hkey : key prev < key y := by rw [hgtK] at hgt; simpa using hgt
          have hmax : key a ≤ key lh := by
            obtain ⟨ls, hls⟩ : ∃ ls, labels = lh :: ls := by
              cases labels with
              | nil => exact absurd rfl hlab_ne
              | cons h t => simp at hlh1; subst hlh1; exact ⟨t, rfl⟩
            subst hls
            simp only [List.reverse_cons, List.mem_append, List.mem_singleton] at ha
            have hinc := acc.labels_inc
            simp only [List.reverse_cons] at hinc
            rw [List.pairwise_append] at hinc
            rcases ha with h | h
            · exact Nat.le_of_lt (hinc.2.2 a h lh (by simp))
            · subst h; exact Nat.le_refl _
          omega
        · intro j hj
          simp only [List.length_append, List.length_singleton] at hj
          by_cases hjl : j < q.length + 1
          · obtain ⟨c, l, x, h1, h2, h3, h4⟩ := acc.faithful j hjl
            have hc : c < labels.reverse.length := by
              have := List.getElem?_eq_some_iff.mp h2
              exact this.1
            refine ⟨c, l, x, ?_, ?_, ?_, h4⟩
            · simp only [List.reverse_cons]
              rw [List.getElem?_append_left (by simp [acc.codes_len]; omega)]; exact h1
            · simp only [List.reverse_cons]
              rw [List.getElem?_append_left hc]; exact h2
            · rw [List.getElem?_append_left (by simp; omega)]; exact h3
          · have hj' : j = q.length + 1 := by omega
            subst hj'
            refine ⟨labels.length, y, y, ?_, ?_, ?_, rfl⟩
            · simp only [List.reverse_cons]
              rw [List.getElem?_append_right (by simp [acc.codes_len])]
              simp [acc.codes_len]
            · simp only [List.reverse_cons]
              rw [List.getElem?_append_right (by simp)]
              simp
            · rw [List.getElem?_append_right (by simp)]
              simp
      · -- the same label continues
        have hgt' : gt y prev = false := by simpa using hgt
        simp only [hgt', Bool.false_eq_true, if_false]
        have hkeq : key y = key prev := by
          rw [hgtK] at hgt'
          simp only [decide_eq_false_iff_not] at hgt'
          omega
        rw [hreassoc]
        apply ih y (q.length + 1 + 1) ((labels.length - 1) :: codes) labels (q ++ [prev])
        refine ⟨by simp, hnull', hsorted', by simp [acc.codes_len], ⟨lh, hlh1, by rw [hlh2, hkeq]⟩, acc.labels_inc, ?_⟩
        intro j hj
        simp only [List.length_append, List.length_singleton] at hj
        by_cases hjl : j < q.length + 1
        · obtain ⟨c, l, x, h1, h2, h3, h4⟩ := acc.faithful j hjl
          refine ⟨c, l, x, ?_, h2, ?_, h4⟩
          · simp only [List.reverse_cons]
            rw [List.getElem?_append_left (by simp [acc.codes_len]; omega)]; exact h1
          · rw [List.getElem?_append_left (by simp; omega)]; exact h3
        · have hj' : j = q.length + 1 := by omega
          subst hj'
          refine ⟨labels.length - 1, lh, y, ?_, ?_, ?_, by rw [hlh2, hkeq]⟩
          · simp only [List.reverse_cons]
            rw [List.getElem?_append_right (by simp [acc.codes_len])]
            simp [acc.codes_len]
          · -- the last element of the reversed list is the head
            have hpos : 0 < labels.length := List.length_pos_iff.mpr hlab_ne
            rw [List.getElem?_reverse (by omega)]
            have : labels.length - 1 - (labels.length - 1) = 0 := by omega
            rw [this]
            cases labels with
            | nil => exact absurd rfl hlab_ne
            | cons h t => simpa using hlh1
          · rw [List.getElem?_append_right (by simp)]
            simp

/-- **`_monotonic_factorization`**: the cut-off is the end of the longest null-free non-decreasing prefix (it stops at
the first null or the first decrease), the labels are strictly increasing (hence distinct), and every row of the
prefix carries the code of a label with its key -/
theorem monotonic_post (lt gt : α → α → Bool) (hord : OrderOK key isNull lt gt) (xs : List α) :
    Post key isNull xs (monotonicFactorization lt gt isNull xs) := by
  cases xs with
  | nil => exact ⟨by simp [monotonicFactorization], rfl, by simp [monotonicFactorization], by simp [monotonicFactorization],
      by simp [monotonicFactorization], by intro j hj; simp [monotonicFactorization] at hj, by intro h; simp [monotonicFactorization] at h⟩
  | cons x xs =>
    unfold monotonicFactorization
    by_cases hx : isNull x = true
    · simp only [hx, if_true]
      exact ⟨by simp, rfl, by simp, by simp, by simp, by intro j hj; simp at hj, by intro _ h; simp at h⟩
    · have hx' : isNull x = false := by simpa using hx
      simp only [hx', Bool.false_eq_true, if_false]
      have := go_post key isNull lt gt hord x 1 [0] [x] [] xs
        ⟨rfl, by simpa using hx', by simp, rfl, ⟨x, rfl, rfl⟩, by simp, by
          intro j hj
          have : j = 0 := by simp at hj; exact hj
          subst this
          exact ⟨0, x, x, rfl, rfl, rfl, rfl⟩⟩
      simpa using this

/-- a null first element (or an empty input) gives the empty prefix; otherwise the prefix is non-empty -/
theorem monotonic_cut_zero (lt gt : α → α → Bool) (hord : OrderOK key isNull lt gt) (x : α) (xs : List α) :
    (monotonicFactorization lt gt isNull (x :: xs)).1 = 0 ↔ isNull x = true := by
  unfold monotonicFactorization
  by_cases hx : isNull x = true
  · simp [hx]
  · have hx' : isNull x = false := by simpa using hx
    simp only [hx', Bool.false_eq_true, if_false, iff_false]
    -- `go` never returns a cut-off below its counter
    have hmono : ∀ (ys : List α) (prev : α) (i : Nat) (cs : List Nat) (ls : List α),
        i ≤ (monotonicFactorization.go lt gt isNull prev i cs ls ys).1 := by
      intro ys
      induction ys with
      | nil => intro prev i cs ls; simp [monotonicFactorization.go]
      | cons y ys ih =>
        intro prev i cs ls
        unfold monotonicFactorization.go
        split
        · simp
        · split
          · exact Nat.le_trans (Nat.le_succ i) (ih _ _ _ _)
          · exact Nat.le_trans (Nat.le_succ i) (ih _ _ _ _)
    have := hmono xs x 1 [0] [x]
    omega

end GV.Mono
