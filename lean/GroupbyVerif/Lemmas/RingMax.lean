import GroupbyVerif.Lemmas.Ring

/-!
# Ring-buffer invariant of the rolling max / min kernel (`_rolling_max_or_min_1d`)

The kernel keeps the running extremum incrementally while the window fills, replaces it when the new value
is at least as good, and otherwise - once the window is full - recomputes it by a scan of the circular
buffer (`min_or_max_and_position`).  The buffer is a rotation of the window, so the scan sees exactly the
window's values; the invariant below states that the kept extremum is the extremum of the non-null values
of the window.
-/

namespace GV

/-- non-null values of a list, as integers -/
def nnInts (k : Kind) (l : List Val) : List Int := (nonNull k l).map valInt

/-- `m` is the greatest (least) element of `l` -/
def IsExt (wantMax : Bool) (l : List Int) (m : Int) : Prop :=
  m ∈ l ∧ ∀ x ∈ l, if wantMax then x ≤ m else m ≤ x

def extOp (wantMax : Bool) (a b : Int) : Int := if wantMax then max a b else min a b

theorem extOp_cases (b : Bool) (x y : Int) : (extOp b x y = x ∨ extOp b x y = y) ∧
    (if b then x ≤ extOp b x y ∧ y ≤ extOp b x y else extOp b x y ≤ x ∧ extOp b x y ≤ y) := by
  unfold extOp
  cases b <;> simp <;> omega

theorem foldl_extOp (b : Bool) (xs : List Int) (a : Int) :
    IsExt b (a :: xs) (xs.foldl (extOp b) a) := by
  induction xs generalizing a with
  | nil => exact ⟨List.mem_cons_self .., by intro x hx; simp at hx; subst hx; cases b <;> simp⟩
  | cons x xs ih =>
    simp only [List.foldl_cons]
    obtain ⟨hm, hall⟩ := ih (extOp b a x)
    have hc := extOp_cases b a x
    refine ⟨?_, ?_⟩
    · rcases List.mem_cons.mp hm with h | h
      · rcases hc.1 with h1 | h1
        · rw [h, h1]; exact List.mem_cons_self ..
        · rw [h, h1]; exact List.mem_cons_of_mem _ (List.mem_cons_self ..)
      · exact List.mem_cons_of_mem _ (List.mem_cons_of_mem _ h)
    · intro y hy
      have h0 := hall (extOp b a x) (List.mem_cons_self ..)
      rcases List.mem_cons.mp hy with h | h
      · subst h
        cases b <;> simp at hc h0 ⊢ <;> omega
      · rcases List.mem_cons.mp h with h | h
        · subst h
          cases b <;> simp at hc h0 ⊢ <;> omega
        · exact hall y (List.mem_cons_of_mem _ h)

theorem extremum_eq_foldl (b : Bool) (x : Int) (xs : List Int) : extremum b (x :: xs) = some (xs.foldl (extOp b) x) := by
  unfold extremum extOp
  rfl

theorem isExt_unique (b : Bool) (l : List Int) (m m' : Int) (h : IsExt b l m) (h' : IsExt b l m') : m = m' := by
  have h1 := h.2 m' h'.1
  have h2 := h'.2 m h.1
  cases b <;> simp at h1 h2 <;> omega

theorem extremum_isExt (b : Bool) (l : List Int) (m : Int) : extremum b l = some m ↔ IsExt b l m := by
  cases l with
  | nil => simp [extremum, IsExt]
  | cons x xs =>
    rw [extremum_eq_foldl]
    constructor
    · intro h; cases h; exact foldl_extOp b xs x
    · intro h; rw [isExt_unique b _ _ _ (foldl_extOp b xs x) h]

theorem isExt_congr (b : Bool) (l1 l2 : List Int) (m : Int) (h : ∀ x, x ∈ l1 ↔ x ∈ l2) : IsExt b l1 m ↔ IsExt b l2 m := by
  unfold IsExt
  constructor
  · rintro ⟨h1, h2⟩; exact ⟨(h m).mp h1, fun x hx => h2 x ((h x).mpr hx)⟩
  · rintro ⟨h1, h2⟩; exact ⟨(h m).mpr h1, fun x hx => h2 x ((h x).mp hx)⟩

theorem isExt_snoc (b : Bool) (l : List Int) (m x : Int) (h : IsExt b l m) : IsExt b (l ++ [x]) (extOp b m x) := by
  have hc := extOp_cases b m x
  refine ⟨?_, ?_⟩
  · rcases hc.1 with h1 | h1
    · rw [h1]; exact List.mem_append_left _ h.1
    · rw [h1]; simp
  · intro y hy
    rcases List.mem_append.mp hy with hy | hy
    · have := h.2 y hy
      cases b <;> simp at hc this ⊢ <;> omega
    · simp at hy; subst hy
      cases b <;> simp at hc ⊢ <;> omega

theorem wf_nonnull_num (k : Kind) (v : Val) (hwf : WF k v) (hnn : isNull k v = false) : ∃ n, v = .num n := by
  cases v with
  | num n => exact ⟨n, rfl⟩
  | nan => cases k <;> simp [WF, isNull] at hwf hnn

theorem nnInts_cons_null (k : Kind) (v : Val) (l : List Val) (h : isNull k v = true) : nnInts k (v :: l) = nnInts k l := by
  simp [nnInts, nonNull, List.filter_cons, h]

theorem nnInts_cons_nonnull (k : Kind) (v : Val) (l : List Val) (h : isNull k v = false) : nnInts k (v :: l) = valInt v :: nnInts k l := by
  simp [nnInts, nonNull, List.filter_cons, h]

theorem nnInts_append (k : Kind) (a b : List Val) : nnInts k (a ++ b) = nnInts k a ++ nnInts k b := by
  simp [nnInts, nonNull]

theorem mem_nnInts (k : Kind) (l : List Val) (x : Int) : x ∈ nnInts k l ↔ ∃ v ∈ l, isNull k v = false ∧ valInt v = x := by
  simp [nnInts, nonNull, List.mem_map, List.mem_filter, and_assoc]

theorem nnInts_length (k : Kind) (l : List Val) : ((nnInts k l).length : Int) = cntNN k l := by
  rw [cntNN_eq]; simp [nnInts]

/-- the scan step of `min_or_max_and_position` -/
def stepM (k : Kind) (wantMax : Bool) (best v : Val) : Val :=
  if isNull k v then best else if (if wantMax then v.ge best else v.le best) then v else best

theorem foldl_stepM (k : Kind) (b : Bool) (vs : List Val) (a : Int) (hwf : ∀ v ∈ vs, WF k v) :
    vs.foldl (stepM k b) (.num a) = .num ((nnInts k vs).foldl (extOp b) a) := by
  induction vs generalizing a with
  | nil => rfl
  | cons v vs ih =>
    have hwf' : ∀ v ∈ vs, WF k v := fun x hx => hwf x (List.mem_cons_of_mem _ hx)
    simp only [List.foldl_cons]
    by_cases hn : isNull k v = true
    · rw [nnInts_cons_null k v vs hn]
      simp only [stepM, hn, if_true]
      exact ih a hwf'
    · have hn' : isNull k v = false := by simpa using hn
      obtain ⟨n, rfl⟩ := wf_nonnull_num k v (hwf v (List.mem_cons_self ..)) hn'
      rw [nnInts_cons_nonnull k _ vs hn']
      simp only [List.foldl_cons, valInt]
      have : stepM k b (.num a) (.num n) = .num (extOp b a n) := by
        simp only [stepM, hn', Bool.false_eq_true, if_false, Val.ge, Val.le, extOp]
        cases b
        · by_cases h : n ≤ a
          · have : min a n = n := by omega
            simp [h, this]
          · have : min a n = a := by omega
            simp [h, this]
        · by_cases h : a ≤ n
          · have : max a n = n := by omega
            simp [h, this]
          · have : max a n = a := by omega
            simp [h, this]
      rw [this]
      exact ih _ hwf'

theorem nonNull_dropWhile (k : Kind) (arr : List Val) : nonNull k (arr.dropWhile (fun v => isNull k v)) = nonNull k arr := by
  induction arr with
  | nil => rfl
  | cons x xs ih =>
    by_cases h : isNull k x = true
    · simp [List.dropWhile_cons, h, nonNull, List.filter_cons] at ih ⊢; exact ih
    · simp [List.dropWhile_cons, h]

/-- **`min_or_max_and_position`** returns the extremum of the non-null values (when there is one) -/
theorem minOrMax_isExt (k : Kind) (b : Bool) (arr : List Val) (hwf : ∀ v ∈ arr, WF k v) (hne : nnInts k arr ≠ []) :
    ∃ m, minOrMax k b arr = .num m ∧ IsExt b (nnInts k arr) m := by
  unfold minOrMax
  have hd := nonNull_dropWhile k arr
  cases hr : arr.dropWhile (fun v => isNull k v) with
  | nil =>
    rw [hr] at hd
    exfalso; apply hne
    unfold nnInts
    rw [← hd]
    rfl
  | cons b0 vs =>
    have hmem : ∀ v ∈ b0 :: vs, v ∈ arr := by
      intro v hv
      have : v ∈ arr.dropWhile (fun v => isNull k v) := by rw [hr]; exact hv
      exact (List.dropWhile_sublist _).subset this
    have hb0 : isNull k b0 = false := by
      have h1 := List.head?_dropWhile_not (fun v => isNull k v) arr
      rw [hr] at h1
      simpa using h1
    obtain ⟨n0, rfl⟩ := wf_nonnull_num k b0 (hwf _ (hmem _ (List.mem_cons_self ..))) hb0
    have hfold := foldl_stepM k b vs n0 (fun v hv => hwf v (hmem v (List.mem_cons_of_mem _ hv)))
    have hnn : nnInts k arr = n0 :: nnInts k vs := by
      unfold nnInts
      rw [← hd, hr]
      simp [nonNull, List.filter_cons, hb0, valInt]
    refine ⟨(nnInts k vs).foldl (extOp b) n0, ?_, ?_⟩
    · simp only
      have : (fun best v => if isNull k v = true then best else if (if b = true then v.ge best else v.le best) = true then v else best) = stepM k b := by
        funext best v; simp [stepM]
      rw [this]
      exact hfold
    · rw [hnn]; exact foldl_extOp b _ n0

/-- for every residue `j` there is an index of the (full) window with that residue -/
theorem window_cover (w n j : Nat) (hw : 0 < w) (hn : w ≤ n) (hj : j < w) : ∃ i, n - w ≤ i ∧ i < n ∧ i % w = j := by
  obtain ⟨d, rfl⟩ : ∃ d, n = w + d := ⟨n - w, by omega⟩
  induction d with
  | zero => exact ⟨j, by omega, by omega, Nat.mod_eq_of_lt hj⟩
  | succ d ih =>
    obtain ⟨i, h1, h2, h3⟩ := ih (by omega)
    by_cases hi : i = w + d - w
    · refine ⟨w + d, by omega, by omega, ?_⟩
      have : (w + d) % w = (w + d - w) % w := by
        have : w + d - w = d := by omega
        rw [this, Nat.add_mod_left]
      rw [this, ← hi, h3]
    · exact ⟨i, by omega, by omega, h3⟩

/-- invariant of one group's state in the max / min kernel w.r.t. the group's history of accepted values -/
structure MInv (k : Kind) (w : Nat) (b : Bool) (h : List Val) (s : RS) : Prop where
  len : s.buf.length = w
  pos : s.pos = h.length % w
  seen : s.nSeen = min h.length w
  slot : ∀ i, h.length - w ≤ i → (hi : i < h.length) → s.buf[i % w]? = some h[i]
  nn : s.nn = cntNN k (lastN w h)
  best : nnInts k (lastN w h) ≠ [] → ∃ m, s.best = .num m ∧ IsExt b (nnInts k (lastN w h)) m

theorem minv_init (k : Kind) (w : Nat) (b : Bool) : MInv k w b [] (rinit k w) := by
  constructor <;> simp [rinit, lastN, cntNN, nnInts, nonNull]

/-- with a full window the buffer holds exactly the window's values -/
theorem buf_mem_iff (w : Nat) (hw : 0 < w) (h : List Val) (buf : List Val) (hlen : buf.length = w)
    (hslot : ∀ i, h.length - w ≤ i → (hi : i < h.length) → buf[i % w]? = some h[i])
    (hfull : w ≤ h.length) (x : Val) : x ∈ buf ↔ x ∈ lastN w h := by
  constructor
  · intro hx
    obtain ⟨j, hj, rfl⟩ := List.getElem_of_mem hx
    rw [hlen] at hj
    obtain ⟨i, h1, h2, h3⟩ := window_cover w h.length j hw hfull hj
    have := hslot i h1 h2
    rw [h3] at this
    have hx' : buf[j] = h[i] := by
      have h4 : buf[j]? = some buf[j] := List.getElem?_eq_getElem _
      rw [h4] at this; exact Option.some.inj this
    rw [hx']
    unfold lastN
    rw [List.mem_iff_getElem]
    refine ⟨i - (h.length - w), by simp; omega, ?_⟩
    simp [List.getElem_drop]
    congr 1; omega
  · intro hx
    unfold lastN at hx
    obtain ⟨t, ht, rfl⟩ := List.getElem_of_mem hx
    simp only [List.length_drop] at ht
    have := hslot (h.length - w + t) (by omega) (by omega)
    rw [List.getElem_drop]
    exact List.mem_of_getElem? this

/-! ### one step -/

/-- non-null count after the eviction -/
def mNn1 (k : Kind) (w : Nat) (s : RS) : Int :=
  if decide (s.nSeen ≥ w) && !isNull k (s.buf.getD s.pos (nullValue k)) then s.nn - 1 else s.nn

def mImproves (k : Kind) (w : Nat) (b : Bool) (s : RS) (v : Val) : Bool :=
  !isNull k v && (decide (mNn1 k w s = 0) || (if b then v.ge s.best else v.le s.best))

theorem mstep_best (k : Kind) (w : Nat) (b : Bool) (s : RS) (v : Val) :
    (mstep k w b s v).best =
      if decide (s.nSeen ≥ w) && !(mImproves k w b s v) then minOrMax k b (s.buf.set s.pos v)
      else (if mImproves k w b s v then v else s.best) := rfl

theorem mstep_buf (k : Kind) (w : Nat) (b : Bool) (s : RS) (v : Val) : (mstep k w b s v).buf = s.buf.set s.pos v := rfl

/-- the shared fields evolve exactly as in the sum kernel -/
theorem mstep_fields (k : Kind) (w : Nat) (b : Bool) (s : RS) (v : Val) (x : Int) :
    (mstep k w b s v).buf = (rstep k w { s with sum := x } v).buf ∧ (mstep k w b s v).pos = (rstep k w { s with sum := x } v).pos ∧
    (mstep k w b s v).nSeen = (rstep k w { s with sum := x } v).nSeen ∧ (mstep k w b s v).nn = (rstep k w { s with sum := x } v).nn :=
  ⟨rfl, rfl, rfl, rfl⟩

theorem minv_to_rinv (k : Kind) (w : Nat) (b : Bool) (h : List Val) (s : RS) (inv : MInv k w b h s) :
    RInv k w h { s with sum := sumNN k (lastN w h) } :=
  ⟨inv.len, inv.pos, inv.seen, inv.slot, rfl, inv.nn⟩

theorem isExt_singleton (b : Bool) (n : Int) : IsExt b [n] n :=
  ⟨by simp, by intro x hx; simp at hx; subst hx; cases b <;> simp⟩

theorem nnInts_nil_of_cnt_zero (k : Kind) (l : List Val) (h : cntNN k l = 0) : nnInts k l = [] := by
  have := nnInts_length k l
  rw [h] at this
  exact List.eq_nil_of_length_eq_zero (by omega)

theorem nnInts_singleton_num (k : Kind) (n : Int) (h : isNull k (.num n) = false) : nnInts k [Val.num n] = [n] := by
  simp [nnInts, nonNull, List.filter_cons, h, valInt]

theorem minv_step (k : Kind) (w : Nat) (b : Bool) (hw : 0 < w) (h : List Val) (s : RS) (v : Val)
    (hwf : ∀ x ∈ h ++ [v], WF k x) (inv : MInv k w b h s) : MInv k w b (h ++ [v]) (mstep k w b s v) := by
  have rinv := rinv_step k w hw h _ v (minv_to_rinv k w b h s inv)
  obtain ⟨f1, f2, f3, f4⟩ := mstep_fields k w b s v (sumNN k (lastN w h))
  have hlen : (mstep k w b s v).buf.length = w := by rw [f1]; exact rinv.len
  have hpos : (mstep k w b s v).pos = (h ++ [v]).length % w := by rw [f2]; exact rinv.pos
  have hseen : (mstep k w b s v).nSeen = min (h ++ [v]).length w := by rw [f3]; exact rinv.seen
  have hslot : ∀ i, (h ++ [v]).length - w ≤ i → (hi : i < (h ++ [v]).length) → (mstep k w b s v).buf[i % w]? = some (h ++ [v])[i] := by
    intro i h1 h2; rw [f1]; exact rinv.slot i h1 h2
  have hnn : (mstep k w b s v).nn = cntNN k (lastN w (h ++ [v])) := by rw [f4]; exact rinv.nn
  refine ⟨hlen, hpos, hseen, hslot, hnn, ?_⟩
  intro hne
  have hwfv : WF k v := hwf v (by simp)
  rw [mstep_best]
  by_cases hfull : w ≤ h.length
  · -- full window: the oldest value leaves
    have hseen' : decide (s.nSeen ≥ w) = true := by rw [inv.seen]; simp; omega
    have hwin' := lastN_snoc_full w hw h v hfull
    have hhead := lastN_head_full w hw h hfull
    have hold : s.buf.getD s.pos (nullValue k) = h[h.length - w] := by
      have := inv.slot (h.length - w) (by omega) (by omega)
      have hm : (h.length - w) % w = h.length % w := by
        conv => rhs; rw [show h.length = (h.length - w) + w by omega]
        simp
      rw [hm, ← inv.pos] at this
      simp [List.getD, this]
    have hnn1 : mNn1 k w s = cntNN k (lastN w h).tail := by
      have := inv.nn
      rw [hhead] at this
      unfold mNn1
      rw [hold, hseen']
      by_cases ho : isNull k h[h.length - w] = true
      · simp [ho, cntNN] at this ⊢; omega
      · simp [ho, cntNN] at this ⊢; omega
    have htail_sub : ∀ x, x ∈ nnInts k (lastN w h).tail → x ∈ nnInts k (lastN w h) := by
      intro x hx
      rw [hhead]
      by_cases ho : isNull k h[h.length - w] = true
      · rwa [nnInts_cons_null k _ _ ho]
      · rw [nnInts_cons_nonnull k _ _ (by simpa using ho)]; exact List.mem_cons_of_mem _ hx
    by_cases himp : mImproves k w b s v = true
    · -- the new value becomes the extremum
      simp only [himp, Bool.not_true, Bool.and_false, Bool.false_eq_true, if_false, if_true]
      have hvn : isNull k v = false := by
        unfold mImproves at himp
        simp only [Bool.and_eq_true, Bool.not_eq_true'] at himp; exact himp.1
      obtain ⟨n, rfl⟩ := wf_nonnull_num k v hwfv hvn
      refine ⟨n, rfl, ?_⟩
      rw [hwin', nnInts_append, nnInts_singleton_num k n hvn]
      unfold mImproves at himp
      simp only [Bool.and_eq_true, Bool.not_eq_true', Bool.or_eq_true, decide_eq_true_eq] at himp
      rcases himp.2 with hz | hge
      · rw [hnn1] at hz
        rw [nnInts_nil_of_cnt_zero k _ hz]
        exact isExt_singleton b n
      · by_cases htl : nnInts k (lastN w h).tail = []
        · rw [htl]; exact isExt_singleton b n
        · have hold_ne : nnInts k (lastN w h) ≠ [] := by
            intro hc
            obtain ⟨y, hy⟩ := List.exists_mem_of_ne_nil _ htl
            have := htail_sub y hy
            rw [hc] at this; cases this
          obtain ⟨m, hm1, hm2⟩ := inv.best hold_ne
          rw [hm1] at hge
          refine ⟨by simp, ?_⟩
          intro x hx
          rcases List.mem_append.mp hx with hx | hx
          · have := hm2.2 x (htail_sub x hx)
            cases b <;> simp [Val.ge, Val.le] at hge this ⊢ <;> omega
          · simp at hx; subst hx; cases b <;> simp
    · -- no improvement: the extremum is recomputed from the buffer, which holds exactly the new window
      have himp' : mImproves k w b s v = false := by simpa using himp
      simp only [himp', hseen', Bool.not_false, Bool.and_true, if_true]
      have hfull' : w ≤ (h ++ [v]).length := by simp; omega
      have hmem := buf_mem_iff w hw (h ++ [v]) (s.buf.set s.pos v) (by rw [← mstep_buf k w b]; exact hlen)
        (by intro i h1 h2; rw [← mstep_buf k w b]; exact hslot i h1 h2) hfull'
      have hsub : ∀ x, x ∈ lastN w (h ++ [v]) → x ∈ h ++ [v] := fun x hx => (List.drop_sublist _ _).subset hx
      have hwfb : ∀ x ∈ s.buf.set s.pos v, WF k x := fun x hx => hwf x (hsub x ((hmem x).mp hx))
      have hnn_mem : ∀ x, x ∈ nnInts k (s.buf.set s.pos v) ↔ x ∈ nnInts k (lastN w (h ++ [v])) := by
        intro x
        rw [mem_nnInts, mem_nnInts]
        constructor
        · rintro ⟨y, hy, h1, h2⟩; exact ⟨y, (hmem y).mp hy, h1, h2⟩
        · rintro ⟨y, hy, h1, h2⟩; exact ⟨y, (hmem y).mpr hy, h1, h2⟩
      have hne' : nnInts k (s.buf.set s.pos v) ≠ [] := by
        obtain ⟨y, hy⟩ := List.exists_mem_of_ne_nil _ hne
        intro hc
        have := (hnn_mem y).mpr hy
        rw [hc] at this; cases this
      obtain ⟨m, hm1, hm2⟩ := minOrMax_isExt k b (s.buf.set s.pos v) hwfb hne'
      exact ⟨m, hm1, (isExt_congr b _ _ m hnn_mem).mp hm2⟩
  · -- the window is still filling: nothing leaves
    have hlt : h.length < w := by omega
    have hseen' : decide (s.nSeen ≥ w) = false := by rw [inv.seen]; simp; omega
    simp only [hseen', Bool.false_and, Bool.false_eq_true, if_false]
    have hwin' := lastN_snoc_notfull w h v hlt
    have hnn1 : mNn1 k w s = cntNN k (lastN w h) := by
      unfold mNn1; rw [hseen']; simp [inv.nn]
    rw [hwin', nnInts_append] at hne ⊢
    by_cases hvn : isNull k v = true
    · have hi : mImproves k w b s v = false := by unfold mImproves; simp [hvn]
      have hs : nnInts k [v] = [] := by simp [nnInts, nonNull, List.filter_cons, hvn]
      rw [hs, List.append_nil] at hne ⊢
      simp only [hi, Bool.false_eq_true, if_false]
      exact inv.best hne
    · have hvn' : isNull k v = false := by simpa using hvn
      obtain ⟨n, rfl⟩ := wf_nonnull_num k v hwfv hvn'
      rw [nnInts_singleton_num k n hvn']
      by_cases hold_ne : nnInts k (lastN w h) = []
      · have hz : mNn1 k w s = 0 := by
          rw [hnn1, ← nnInts_length, hold_ne]; rfl
        have hi : mImproves k w b s (.num n) = true := by unfold mImproves; simp [hvn', hz]
        rw [hold_ne]
        simp only [hi, if_true, List.nil_append]
        exact ⟨n, rfl, isExt_singleton b n⟩
      · obtain ⟨m, hm1, hm2⟩ := inv.best hold_ne
        have hnz : mNn1 k w s ≠ 0 := by
          rw [hnn1, ← nnInts_length]
          intro hc
          exact hold_ne (List.eq_nil_of_length_eq_zero (by omega))
        have hsn := isExt_snoc b _ m n hm2
        by_cases hcmp : (if b then (Val.num n).ge s.best else (Val.num n).le s.best) = true
        · have hi : mImproves k w b s (.num n) = true := by unfold mImproves; simp [hvn', hcmp]
          simp only [hi, if_true]
          refine ⟨n, rfl, ?_⟩
          have : extOp b m n = n := by
            rw [hm1] at hcmp
            unfold extOp
            cases b <;> simp [Val.ge, Val.le] at hcmp ⊢ <;> omega
          rw [this] at hsn; exact hsn
        · have hi : mImproves k w b s (.num n) = false := by
            unfold mImproves; simp [hvn', hnz]; simpa using hcmp
          simp only [hi, Bool.false_eq_true, if_false]
          refine ⟨m, hm1, ?_⟩
          have : extOp b m n = m := by
            rw [hm1] at hcmp
            unfold extOp
            cases b <;> simp [Val.ge, Val.le] at hcmp ⊢ <;> omega
          rw [this] at hsn; exact hsn

/-- every reachable state of one group satisfies the invariant w.r.t. its history -/
theorem minv_fold (k : Kind) (w : Nat) (b : Bool) (hw : 0 < w) (hist : List Val) (hwf : ∀ x ∈ hist, WF k x) :
    MInv k w b hist (hist.foldl (mstep k w b) (rinit k w)) := by
  suffices H : ∀ (rest done : List Val) (s : RS), (∀ x ∈ done ++ rest, WF k x) → MInv k w b done s →
      MInv k w b (done ++ rest) (rest.foldl (mstep k w b) s) by
    simpa using H hist [] (rinit k w) (by simpa using hwf) (minv_init k w b)
  intro rest
  induction rest with
  | nil => intro done s _ inv; simpa using inv
  | cons r rest ih =>
    intro done s hwf' inv
    simp only [List.foldl_cons]
    have h1 : ∀ x ∈ done ++ [r], WF k x := by
      intro x hx
      apply hwf'
      rcases List.mem_append.mp hx with h | h
      · exact List.mem_append_left _ h
      · simp at h; subst h; simp
    have := ih (done ++ [r]) (mstep k w b s r) (by simpa using hwf') (minv_step k w b hw done s r h1 inv)
    simpa using this

end GV
