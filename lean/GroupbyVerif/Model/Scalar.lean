import GroupbyVerif.Model.Val

/-!
# Hand-written model of the scalar reducers (`numba.ScalarFuncs`, `util.NumbaReductionOps`)

Written in the structured form the proofs use.  `Generated/Bridge.lean` proves, on every
run, that the definitions regenerated from the current source text are equal to these.
-/

namespace GV

/-- a reducer: (accumulator, next value, count) ↦ (accumulator, count) -/
abbrev Red := Val → Val → Int → Val × Int

/-- comparison-based combiners exactly as the source writes them (`if next > cur: cur = next`) -/
def vmaxC (cur next : Val) : Val := if next.gt cur then next else cur
def vminC (cur next : Val) : Val := if next.lt cur then next else cur
def vfirstC (cur _next : Val) : Val := cur
def vaddSq (cur next : Val) : Val := cur.add next.sq

/-- shape shared by nansum / nansum_squares / nanmax / nanmin / first:
skip nulls, seed with (`pre` of) the first non-null value, then combine -/
def nanR (k : Kind) (comb : Val → Val → Val) (pre : Val → Val) : Red := fun cur next count =>
  if isNull k next then (cur, count)
  else if count != 0 then (comb cur next, count + 1)
  else (pre next, count + 1)

namespace Scalar

def sum (_k : Kind) : Red := fun cur next count =>
  if count != 0 then (cur.add next, count + 1) else (next, count + 1)

def nansum (k : Kind) : Red := nanR k Val.add id
def nansum_squares (k : Kind) : Red := nanR k vaddSq Val.sq
def nanmax (k : Kind) : Red := nanR k vmaxC id
def nanmin (k : Kind) : Red := nanR k vminC id
def first (k : Kind) : Red := nanR k vfirstC id

/-- non-skipping max/min (used by cummax/cummin with skip_na=False): a null *replaces* the
accumulator without being counted -/
def max (k : Kind) : Red := fun cur next count =>
  if isNull k next then (next, count)
  else if count != 0 then (vmaxC cur next, count + 1)
  else (next, count + 1)

def min (k : Kind) : Red := fun cur next count =>
  if isNull k next then (next, count)
  else if count != 0 then (vminC cur next, count + 1)
  else (next, count + 1)

def nancount (k : Kind) : Red := fun _cur next count =>
  if isNull k next then (Val.ofInt count, count) else (Val.ofInt (count + 1), count + 1)

def count (_k : Kind) : Red := fun _cur _next count => (Val.ofInt (count + 1), count + 1)

/-- `last` counts every row (null or not) and keeps the last non-null value -/
def last (k : Kind) : Red := fun cur next count =>
  if isNull k next then (cur, count + 1) else (next, count + 1)

end Scalar

/- two-argument reducers of `util.NumbaReductionOps` (used by `nanops._nb_reduce`) -/
namespace ROps

def count (_k : Kind) (x _y : Val) : Val := x.add (Val.ofInt 1)
def min (_k : Kind) (x y : Val) : Val := if x.le y then x else y
def max (_k : Kind) (x y : Val) : Val := if x.ge y then x else y
def sum (_k : Kind) (x y : Val) : Val := x.add y
def first (_k : Kind) (x _y : Val) : Val := x
def first_skipna (k : Kind) (x y : Val) : Val := if isNull k x then y else x
def last (_k : Kind) (_x y : Val) : Val := y
def last_skipna (k : Kind) (x y : Val) : Val := if isNull k y then x else y
def sum_square (_k : Kind) (x y : Val) : Val := x.add y.sq

end ROps

end GV
