import GroupbyVerif.Model.Spec

/-!
# Stand-alone helpers: `nanops._nb_reduce` / `reduce_1d`, `nb_dot`, `bools_to_categorical`, `pretty_cut`
-/

namespace GV

/-- `_get_first_non_null`: (position, value) of the first non-null element, `(-1, null)` if none -/
def firstNonNull (k : Kind) : List Val → Nat → Option (Nat × Val)
  | [], _ => none
  | v :: vs, i => if isNull k v then firstNonNull k vs (i + 1) else some (i, v)

/-- `_nb_reduce(reduce_func, arr, skipna, initial_value)`; `none` where the source reads `arr[0]` of an
empty array (undefined behaviour) -/
def nbReduce (k : Kind) (f : Val → Val → Val) (arr : List Val) (skipna : Bool) (initial : Option Val) : Option Val :=
  match initial with
  | some init =>
    some (if skipna then (nonNull k arr).foldl f init else arr.foldl f init)
  | none =>
    match arr with
    | [] => none
    | a0 :: rest =>
      if skipna then
        match firstNonNull k arr 0 with
        | none => some a0                                   -- all null: `return arr[0]`
        | some (loc, out) => some ((nonNull k (arr.drop (loc + 1))).foldl f out)
      else
        if isNull k a0 then some a0 else some (rest.foldl f a0)

inductive NanOp where
  | sum | min | max | count | sumSquare
deriving DecidableEq, Repr, Inhabited

def NanOp.fn (op : NanOp) (R : Kind → String → Val → Val → Val) (k : Kind) : Val → Val → Val :=
  match op with
  | .sum => R k "sum" | .min => R k "min" | .max => R k "max" | .count => R k "count" | .sumSquare => R k "sum_square"

/-- initial value and the reduction applied to the per-chunk results -/
def NanOp.initial : NanOp → Option Val
  | .sum | .sumSquare | .count => some (.num 0)
  | _ => none

def NanOp.chunkOp : NanOp → NanOp
  | .sum | .sumSquare | .count => .sum
  | op => op

/-- `reduce_1d(name, arr, skipna, n_threads)`: one pass, or `n_threads` array_split chunks reduced
separately and their results reduced with the chunk reduction -/
def reduce1d (R : Kind → String → Val → Val → Val) (op : NanOp) (k : Kind) (arr : List Val) (skipna : Bool) (threads : Nat) :
    Option Val :=
  let sk := if op = .count then true else skipna
  if threads = 1 then nbReduce k (op.fn R k) arr sk op.initial
  else if threads = 0 then none
  else
    match (arraySplit arr threads).mapM (fun c => nbReduce k (op.fn R k) c sk op.initial) with
    | none => none
    | some parts => nbReduce k (op.chunkOp.fn R k) parts skipna op.chunkOp.initial

def modelROps (k : Kind) : String → Val → Val → Val
  | "sum" => ROps.sum k | "min" => ROps.min k | "max" => ROps.max k | "count" => ROps.count k
  | "sum_square" => ROps.sum_square k | "first" => ROps.first k | "first_skipna" => ROps.first_skipna k
  | "last" => ROps.last k | _ => ROps.last_skipna k

/-- NumPy's nan-aware reduction of the non-null values -/
def specNan (op : NanOp) (k : Kind) (arr : List Val) : Val :=
  let nn := nonNull k arr
  match op with
  | .sum => sumVals nn
  | .sumSquare => sumSqVals nn
  | .count => .num nn.length
  | .max => accOf vmaxC id (arr.headD (nullValue k)) nn
  | .min => accOf vminC id (arr.headD (nullValue k)) nn

/-! ### nb_dot, bools_to_categorical, pretty_cut -/

/-- `_nb_dot`: `out[row] += a[col][row] * b[col]` over the columns -/
def nbDot (cols : List (List Int)) (b : List Int) (nrows : Nat) : List Int :=
  (List.range nrows).map fun row => ((cols.zip b).map fun cb => cb.1.getD row 0 * cb.2).sum

/-- bit mask of a boolean row (column `i` has weight `2^i`) -/
def bitMask : List Bool → Nat
  | [] => 0
  | b :: bs => (if b then 1 else 0) + 2 * bitMask bs

/-- the columns whose bit is set in `mask` (what the label names) -/
def labelColumns (ncols : Nat) (mask : Nat) : List Nat := (List.range ncols).filter fun i => mask.testBit i

/-- `searchsorted(bins, x)` (side = left): number of edges strictly smaller than `x` -/
def searchLeft (bins : List Int) (x : Int) : Nat := (bins.filter (fun b => b < x)).length

end GV
