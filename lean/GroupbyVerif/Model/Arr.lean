import GroupbyVerif.Model.Val

/-!
# numpy-style array operations used by the dispatch code (import-free, executable)
-/

namespace GV

/-- `np.array_split(a, k)` chunk sizes: the first `n % k` parts are one longer -/
def splitSizes (n k : Nat) : List Nat :=
  (List.range k).map fun j => n / k + (if j < n % k then 1 else 0)

/-- split a list at the given consecutive sizes (`np.array_split(a, np.cumsum(sizes)[:-1])`) -/
def splitBy {α : Type} : List α → List Nat → List (List α)
  | _, [] => []
  | xs, s :: ss => xs.take s :: splitBy (xs.drop s) ss

def arraySplit {α : Type} (xs : List α) (k : Nat) : List (List α) :=
  splitBy xs (splitSizes xs.length k)

/-- Python slice bound clamping for a sequence of length `n` (step 1) -/
def clampIdx (n : Nat) (i : Int) : Nat :=
  if i < 0 then (if i + n < 0 then 0 else (i + n).toNat) else (if i > n then n else i.toNat)

def sliceBounds (n : Nat) (start stop : Option Int) : Nat × Nat :=
  let a := match start with | none => 0 | some i => clampIdx n i
  let b := match stop with | none => n | some i => clampIdx n i
  (a, b)

/-- `xs[start:stop]` -/
def sliceSel {α : Type} (xs : List α) (start stop : Option Int) : List α :=
  let (a, b) := sliceBounds xs.length start stop
  (xs.drop a).take (b - a)

/-- `mask.nonzero()[0]` -/
def nonzero (m : List Bool) : List Nat :=
  (m.zipIdx.filter (·.1)).map (·.2)

/-- fancy indexing `xs[ps]` with numpy wrap-around for negative positions;
`none` if a position is outside `[-n, n)` (the kernels raise for `i ≥ n`; `i < -n` is undefined) -/
def takePositions {α : Type} (xs : List α) (ps : List Int) : Option (List α) :=
  ps.mapM fun p =>
    let q := normIdx xs.length p
    if q < 0 then none else xs[q.toNat]?

/-- boolean-mask selection `xs[m]` -/
def selectBool {α : Type} (xs : List α) (m : List Bool) : List α :=
  ((xs.zip m).filter (·.2)).map (·.1)

/-- the row filter accepted by the kernels -/
inductive Mask where
  | none
  | bool (m : List Bool)
  | slice (start stop : Option Int)
  | pos (p : List Int)
deriving Repr, Inhabited

end GV
