import GroupbyVerif.Model.Val

/-!
# Runtime support for the generated loop translations (`Generated/Loops.lean`), import-free

A numpy array is a total function `Int → α` (plus a length kept in a separate variable); `normI`
is numba's wrap-around of a negative index; `aset` is the point update `a[i] = x`.
-/

namespace GV

/-- numba / numpy index normalisation for an array of length `n`: negative indices wrap once -/
def normI (n k : Int) : Int := if k < 0 then k + n else k

def aset {α : Type} (a : Int → α) (i : Int) (x : α) : Int → α := fun j => if j = i then x else a j

def aset2 {α : Type} (a : Int → Int → α) (i j : Int) (x : α) : Int → Int → α :=
  fun p q => if p = i ∧ q = j then x else a p q

/-- `a[i] = row` for a 2-d array: the row is copied element by element -/
def asetRow {α : Type} (a : Int → Int → α) (i : Int) (row : Int → α) : Int → Int → α :=
  fun p q => if p = i then row q else a p q

/-- `range(n)` -/
def rangeI (n : Int) : List Int := (List.range n.toNat).map Int.ofNat

/-- `range(a, b)` -/
def rangeI2 (a b : Int) : List Int := (List.range (b - a).toNat).map fun j => a + Int.ofNat j

/-- two's-complement wrap to `w` bits (signed counter of width `w`) -/
def wrapS (w : Nat) (x : Int) : Int := (x + 2 ^ (w - 1)) % 2 ^ w - 2 ^ (w - 1)

/-- wrap to `w` bits (unsigned counter of width `w`) -/
def wrapU (w : Nat) (x : Int) : Int := x % 2 ^ w

namespace Val

/-- IEEE `==`: false as soon as an operand is NaN -/
def eqF : Val → Val → Bool
  | num a, num b => decide (a = b)
  | _, _ => false

/-- IEEE `!=`: true as soon as an operand is NaN -/
def neF (a b : Val) : Bool := !eqF a b

/-- product (NaN as soon as an operand is NaN; infinities are outside the model) -/
def mul : Val → Val → Val
  | num a, num b => num (a * b)
  | _, _ => nan

/-- `abs` (NaN stays NaN) -/
def abs : Val → Val
  | num a => num (a.natAbs : Nat)
  | nan => nan

end Val

/-- a float cell computed exactly (the EMA kernels): NaN or a rational -/
inductive FVal where
  | nan
  | q (r : Rat)
deriving DecidableEq, Inhabited

namespace FVal

def ofInt (n : Int) : FVal := q n
def isNan : FVal → Bool
  | nan => true
  | _ => false
def neg : FVal → FVal
  | q a => q (-a)
  | nan => nan
def add : FVal → FVal → FVal
  | q a, q b => q (a + b)
  | _, _ => nan
def sub : FVal → FVal → FVal
  | q a, q b => q (a - b)
  | _, _ => nan
def mul : FVal → FVal → FVal
  | q a, q b => q (a * b)
  | _, _ => nan
/-- division; a zero divisor (IEEE: ±inf or NaN, not representable here) is rendered as NaN - the kernels never divide
by zero (the divisor is `1 + weight` with a non-negative weight) -/
def div : FVal → FVal → FVal
  | q a, q b => if b = 0 then nan else q (a / b)
  | _, _ => nan
/-- true division of two integers -/
def divII (a b : Int) : FVal := if b = 0 then nan else q ((a : Rat) / (b : Rat))

end FVal

end GV
