import GroupbyVerif.Model.Val

/-!
# Runtime support for the generated loop translations (`Generated/Loops.lean`), import-free

A numpy array is a total function `Int → α` (plus a length kept in a separate variable); `normI`
is numba's wrap-around of a negative index; `aset` is the point update `a[i] = x`.
-/

namespace GV

/-- numba / numpy index normalisation for an array of length `n`: negative indices wrap once -/
def normI (n k : Int) : Int := if k < 0 then k + n else k

def aset {α : Type} (a : Int → α) (i : Int) (x : α) : Int → α := fun j => if j = i then x else a j

def aset2 {α : Type} (a : Int → Int → α) (i j : Int) (x : α) : Int → Int → α :=
  fun p q => if p = i ∧ q = j then x else a p q

/-- `range(n)` -/
def rangeI (n : Int) : List Int := (List.range n.toNat).map Int.ofNat

/-- `range(a, b)` -/
def rangeI2 (a b : Int) : List Int := (List.range (b - a).toNat).map fun j => a + Int.ofNat j

/-- two's-complement wrap to `w` bits (signed counter of width `w`) -/
def wrapS (w : Nat) (x : Int) : Int := (x + 2 ^ (w - 1)) % 2 ^ w - 2 ^ (w - 1)

/-- wrap to `w` bits (unsigned counter of width `w`) -/
def wrapU (w : Nat) (x : Int) : Int := x % 2 ^ w

namespace Val

/-- IEEE `==`: false as soon as an operand is NaN -/
def eqF : Val → Val → Bool
  | num a, num b => decide (a = b)
  | _, _ => false

/-- IEEE `!=`: true as soon as an operand is NaN -/
def neF (a b : Val) : Bool := !eqF a b

end Val

end GV
