import GroupbyVerif.Model.Arr

/-!
# Factorization: keys -> (integer codes, labels)

Keys are abstract atoms `κ` with decidable equality; `none` is a null key.
`factorizeFirst` is the assumed behaviour of `pd.factorize(use_na_sentinel=True)`:
codes in first-appearance order, `-1` for null, uniques without null.  Everything the
repository adds on top (mixed-radix combination of several keys, monotonic run detection,
chunk-wise factorization with pointer tables, counting sort of positions) is modelled here
step by step.
-/

namespace GV

variable {κ : Type} [DecidableEq κ]

/-- order-preserving de-duplication (first occurrences kept) -/
def dedup : List κ → List κ
  | [] => []
  | x :: xs => x :: (dedup xs).filter (fun y => y ≠ x)

/-- code of one key against a label list: position of the label, `-1` for a null key -/
def codeOf (labels : List κ) : Option κ → Int
  | none => -1
  | some x => (labels.idxOf x : Nat)

/-- `pd.factorize(keys, use_na_sentinel=True)` -/
def factorizeFirst (keys : List (Option κ)) : List Int × List κ :=
  let labels := dedup (keys.filterMap id)
  (keys.map (codeOf labels), labels)

/-! ### several keys: `factorize_2d` -/

/-- mixed-radix value of a row of per-key codes (`_weight_code_sum` with weights
`prod(shape[j+1:])`); `none` as soon as one code is `-1` -/
def weightCodeSum : List Int → List Nat → Option Nat
  | [], _ => some 0
  | _ :: _, [] => none
  | c :: cs, _ :: ss =>
    if c < 0 then none
    else match weightCodeSum cs ss with
      | none => none
      | some r => some (c.toNat * ss.foldl (· * ·) 1 + r)

/-- transpose a list of equally long columns into rows -/
def transposeCols {α : Type} : List (List α) → Nat → List (List α)
  | cols, n => (List.range n).map fun i => cols.filterMap (·[i]?)

/-- `factorize_2d(*keys, sort=False)`: factorize every key, combine the code rows through the
mixed radix, factorize the combined values by first appearance; the labels are the code rows
(one label position per key) at first appearance -/
def factorize2d (keyCols : List (List (Option κ))) (n : Nat) : List Int × List (List κ) :=
  let facts := keyCols.map factorizeFirst
  let shape := facts.map (·.2.length)
  let rows := transposeCols (facts.map (·.1)) n
  let combinedKeys : List (Option Nat) := rows.map (weightCodeSum · shape)
  let (codes, _) := factorizeFirst combinedKeys
  -- label tuples: the keys of the first row carrying each combined code
  let keyRows := transposeCols keyCols n
  let labelRows := dedup ((keyRows.zip combinedKeys).filterMap fun (kr, ck) =>
    match ck with | none => none | some _ => some (kr.filterMap id))
  (codes, labelRows)

/-! ### derived views -/

/-- ascending positions of the rows carrying code `g` -/
def positionsOf (codes : List Int) (g : Int) : List Nat :=
  (codes.zipIdx.filter (fun p => p.1 = g)).map (·.2)

/-- `GroupBy.groups` / `_build_group_sorted_indexer_numba`: positions grouped by code,
groups in code order, ascending inside a group; negative codes dropped -/
def groupSortedIndexer (codes : List Int) (ngroups : Nat) : List Nat :=
  ((List.range ngroups).map fun g => positionsOf codes (Int.ofNat g)).flatten

/-- `_monotonic_factorization`: run detection on a non-decreasing, null-free prefix.
Returns (cutoff, codes of the prefix, labels).  `lt`/`gt` are the element comparisons (both
false when either side is a float NaN / NaT); `isNull x` is the source's `x != x`.
The prefix ends at the first decrease or the first null; a null first element gives cutoff 0. -/
def monotonicFactorization {α : Type} (lt gt : α → α → Bool) (isNull : α → Bool) :
    List α → Nat × List Nat × List α
  | [] => (0, [], [])
  | x :: xs =>
    if isNull x then (0, [], []) else
    let rec go (prev : α) (i : Nat) (codes : List Nat) (labels : List α) : List α → Nat × List Nat × List α
      | [] => (i, codes.reverse, labels.reverse)
      | y :: ys =>
        if lt y prev || isNull y then (i, codes.reverse, labels.reverse)
        else if gt y prev then go y (i + 1) (labels.length :: codes) (y :: labels) ys
        else go y (i + 1) ((labels.length - 1) :: codes) labels ys
    go x 1 [0] [x] xs

end GV
