import GroupbyVerif.Model.Cumulative

/-!
# Rolling kernels: `_rolling_sum_or_mean_1d`, `_rolling_max_or_min_1d`, `_rolling_shift_or_diff_1d`

Per group: a circular buffer of `window` slots, the write position, the number of rows seen
(saturating at `window`), the non-null count and the running sum / current best — exactly
as the source keeps them.  Rows with a negative code or not selected by the mask are skipped.
-/

namespace GV

/-- per-group ring state (shared by the three kernels) -/
structure RS where
  buf : List Val
  pos : Nat
  nSeen : Nat
  sum : Int       -- running sum of the non-null values in the window
  nn : Int        -- number of non-null values in the window
  best : Val      -- current extremum (max/min kernel)
deriving Repr, Inhabited

def rinit (k : Kind) (w : Nat) : RS :=
  { buf := List.replicate w (nullValue k), pos := 0, nSeen := 0, sum := 0, nn := 0, best := nullValue k }

def valInt : Val → Int
  | .num n => n
  | .nan => 0

/-- one accepted row of the sum/mean kernel -/
def rstep (k : Kind) (w : Nat) (s : RS) (v : Val) : RS :=
  let full := decide (s.nSeen ≥ w)
  let old := s.buf.getD s.pos (nullValue k)
  let evict := full && !isNull k old
  let sum1 := if evict then s.sum - valInt old else s.sum
  let nn1 := if evict then s.nn - 1 else s.nn
  let sum2 := if isNull k v then sum1 else sum1 + valInt v
  let nn2 := if isNull k v then nn1 else nn1 + 1
  { s with buf := s.buf.set s.pos v, pos := (s.pos + 1) % w,
           nSeen := if full then s.nSeen else s.nSeen + 1, sum := sum2, nn := nn2 }

/-- `min_or_max_and_position`: skip leading nulls, then a `>=` / `<=` scan that skips nulls -/
def minOrMax (k : Kind) (wantMax : Bool) (arr : List Val) : Val :=
  let rest := arr.dropWhile (fun v => isNull k v)
  match rest with
  | [] => arr.getLastD (nullValue k)
  | b :: vs => vs.foldl (fun best v =>
      if isNull k v then best else if (if wantMax then v.ge best else v.le best) then v else best) b

/-- one accepted row of the max/min kernel (with the source's forced `need_recalc = True`) -/
def mstep (k : Kind) (w : Nat) (wantMax : Bool) (s : RS) (v : Val) : RS :=
  let full := decide (s.nSeen ≥ w)
  let old := s.buf.getD s.pos (nullValue k)
  let nn1 := if full && !isNull k old then s.nn - 1 else s.nn
  let buf' := s.buf.set s.pos v
  let improves := !isNull k v &&
    (decide (nn1 = 0) || (if wantMax then v.ge s.best else v.le s.best))
  let best1 := if improves then v else s.best
  let needRecalc := !improves
  let nn2 := if isNull k v then nn1 else nn1 + 1
  let best2 := if full && needRecalc then minOrMax k wantMax buf' else best1
  { s with buf := buf', pos := (s.pos + 1) % w, nSeen := if full then s.nSeen else s.nSeen + 1,
           nn := nn2, best := best2 }

inductive RollOp where
  | sum | mean | min | max | shift | diff
deriving DecidableEq, Repr, Inhabited

/-- result cell: a number, a ratio (mean), or null -/
inductive RCell where
  | null
  | num (n : Int)
  | ratio (s c : Int)
deriving DecidableEq, Repr, Inhabited

/-- output of one accepted row, computed from the state *before* (shift/diff) or *after* (others) -/
def rollOut (k : Kind) (op : RollOp) (w minp : Nat) (before after : RS) (v : Val) : RCell :=
  match op with
  | .sum => if after.nn ≥ minp then .num after.sum else .null
  | .mean => if after.nn ≥ minp ∧ after.nn > 0 then .ratio after.sum after.nn else .null
  | .min | .max => if after.nn ≥ minp then (match after.best with | .num n => .num n | .nan => .null) else .null
  | .shift =>
    if before.nSeen ≥ w then (match before.buf.getD before.pos (nullValue k) with | .num n => .num n | .nan => .null) else .null
  | .diff =>
    if before.nSeen ≥ w then
      (let old := before.buf.getD before.pos (nullValue k)
       if isNull k v || isNull k old then .null
       else match v.sub old with | .num n => .num n | .nan => .null)
    else .null

def rollStep (k : Kind) (op : RollOp) (w : Nat) (s : RS) (v : Val) : RS :=
  match op with
  | .min => mstep k w false s v
  | .max => mstep k w true s v
  | _ => rstep k w s v

/-- the loop: outputs row by row (`none` where the kernel writes nothing: null key / masked row) -/
def rollGo (k : Kind) (op : RollOp) (w minp : Nat) : (Int → RS) → List CRow → List (Option RCell)
  | _, [] => []
  | st, r :: rs =>
    if r.code < 0 || !r.sel then none :: rollGo k op w minp st rs
    else
      let s := st r.code
      let s' := rollStep k op w s r.val
      some (rollOut k op w minp s s' r.val) :: rollGo k op w minp (upd st r.code s') rs

def rolling (k : Kind) (op : RollOp) (w minp : Nat) (rows : List CRow) : List (Option RCell) :=
  rollGo k op w minp (fun _ => rinit k w) rows

/-! ### specification -/

/-- the last `w` elements -/
def lastN {α : Type} (w : Nat) (h : List α) : List α := h.drop (h.length - w)

def extremum (wantMax : Bool) : List Int → Option Int
  | [] => none
  | x :: xs => some (xs.foldl (fun a b => if wantMax then max a b else min a b) x)

/-- at a selected row with non-null key: the reduction of the non-null values among the last
`w` selected rows of the same group ending at this row, null unless at least `minp` are non-null;
shift: the value `w` group-rows earlier; diff: the difference to it -/
def specRollAt (k : Kind) (op : RollOp) (w minp : Nat) (hist : List Val) : RCell :=
  -- `hist` = selected values of the group up to and including the row
  let win := lastN w hist
  let nn := (nonNull k win).map valInt
  match op with
  | .sum => if nn.length ≥ minp then .num nn.sum else .null
  | .mean => if nn.length ≥ minp ∧ nn.length > 0 then .ratio nn.sum nn.length else .null
  | .max => if nn.length ≥ minp then (match extremum true nn with | some m => .num m | none => .null) else .null
  | .min => if nn.length ≥ minp then (match extremum false nn with | some m => .num m | none => .null) else .null
  | .shift =>
    if hist.length > w then (match hist.getD (hist.length - 1 - w) .nan with
      | v => if isNull k v then .null else .num (valInt v)) else .null
  | .diff =>
    if hist.length > w then
      (let a := hist.getD (hist.length - 1) .nan
       let b := hist.getD (hist.length - 1 - w) .nan
       if isNull k a || isNull k b then .null else .num (valInt a - valInt b))
    else .null

def specRolling (k : Kind) (op : RollOp) (w minp : Nat) (rows : List CRow) : List (Option RCell) :=
  (List.range rows.length).map fun i =>
    match rows[i]? with
    | none => none
    | some r => if r.code < 0 || !r.sel then none
                else some (specRollAt k op w minp (selVals (rows.take (i + 1)) r.code))

end GV
