import GroupbyVerif.Model.Kernels
import GroupbyVerif.Model.Imp

/-!
# Row selection kernels: `_find_nth`, `_find_first_or_last_n`

The per-group counter `seen` has the width the *source* allocates (extracted by the
translator into `Generated.Constants.seenWidth*`); `wrapS w` models its two's-complement
wrap-around.
-/

namespace GV

/-- per-group state of `_find_nth`: (out, seen, assertion failed) ; `out = -1` = not found -/
structure NthSt where
  out : Int
  seen : Int
  failed : Bool
deriving Repr, DecidableEq, Inhabited

/-- one visited row of the group at position `i` -/
def nthStep (w : Nat) (n : Int) (s : NthSt) (i : Nat) : NthSt :=
  { out := if s.seen = n then (i : Int) else s.out
    seen := wrapS w (s.seen + 1)
    failed := s.failed || (decide (s.seen = n) && decide (s.out ≠ -1)) }

def nthInit : NthSt := ⟨-1, 0, false⟩

/-- rows in scan order, each carrying its position -/
def scanRows (codes : List Int) (forward : Bool) : List (Int × Nat) :=
  let r := codes.zipIdx
  if forward then r else r.reverse

/-- `_find_nth(group_key, ngroups, n)`: forward scan for `n ≥ 0`, backward with `-n-1` otherwise -/
def findNth (w : Nat) (codes : List Int) (n : Int) : Int → NthSt :=
  let fwd := decide (0 ≤ n)
  let n' := if 0 ≤ n then n else -n - 1
  groupFold (nthStep w n') (fun _ => nthInit) (scanRows codes fwd)

/-- per-group state of `_find_first_or_last_n`: the `n` output slots and `seen` -/
structure FLSt where
  slots : List Int
  seen : Int
deriving Repr, DecidableEq, Inhabited

/-- `out[k, j] = i` with numpy wrap-around for a negative `j` (possible only after `seen` wrapped) -/
def setSlot (slots : List Int) (j : Int) (i : Nat) : List Int :=
  let q := normIdx slots.length j
  if q < 0 then slots else slots.set q.toNat i

def flStep (w : Nat) (n : Nat) (s : FLSt) (i : Nat) : FLSt :=
  if s.seen < n then { slots := setSlot s.slots s.seen i, seen := wrapS w (s.seen + 1) } else s

def flInit (n : Nat) : FLSt := ⟨List.replicate n (-1), 0⟩

/-- `_find_first_or_last_n(group_key, ngroups, n, forward)`; the backward scan's columns are reversed -/
def findFirstOrLastN (w : Nat) (codes : List Int) (n : Nat) (forward : Bool) : Int → List Int :=
  fun g =>
    let s := groupFold (flStep w n) (fun _ => flInit n) (scanRows codes forward) g
    if forward then s.slots else s.slots.reverse

/-! ### specification -/

/-- ascending positions of the rows of group `g` -/
def posOfGroup (codes : List Int) (g : Int) : List Nat :=
  (codes.zipIdx.filter (fun p => p.1 = g)).map (·.2)

def padTo (n : Nat) (l : List Int) : List Int := l ++ List.replicate (n - l.length) (-1)

/-- `head(n)`: the first `n` positions of the group (then `-1` padding) -/
def specHead (codes : List Int) (n : Nat) (g : Int) : List Int :=
  padTo n (((posOfGroup codes g).take n).map Int.ofNat)

/-- `tail(n)`: the last `n` positions of the group, ascending, right-aligned -/
def specTail (codes : List Int) (n : Nat) (g : Int) : List Int :=
  let ps := posOfGroup codes g
  let l := (ps.drop (ps.length - n)).map Int.ofNat
  List.replicate (n - l.length) (-1) ++ l

/-- the n-th element of a list of positions, `-1` if too short -/
def nthSpec (n : Nat) (ps : List Nat) : Int := match ps[n]? with | some p => p | none => -1

/-- `nth(n)`: the n-th position from the start (`n ≥ 0`) or from the end (`n < 0`), `-1` if the group is too short -/
def specNth (codes : List Int) (n : Int) (g : Int) : Int :=
  let ps := posOfGroup codes g
  if 0 ≤ n then nthSpec n.toNat ps else nthSpec (-n - 1).toNat ps.reverse

end GV
