import GroupbyVerif.Model.Kernels

/-!
# Composite statistics: `GroupBy.var`, `ratio`, `subset_ratio`, `density` (import-free, executable)

Each is a fixed arithmetic combination of kernel results (`core.py`):

* `var`   : `(sum_squares − sum² / count) / (count − ddof)` from three kernel calls, null when `count ≤ ddof`;
* `ratio` : `agg(values1, "sum") / agg(values2, "sum")` under the same mask;
* `subset_ratio` : sum under `subset_mask & global_mask` over sum under `global_mask`;
* `density` (one key) : `100 · sum_g / Σ_g sum_g` (the `'All'` row of the totals).

Arithmetic is exact (`Rat`); `none` stands for a non-finite float (`0/0`, `x/0`).
-/

namespace GV

def Val.toInt? : Val → Option Int
  | .num n => some n
  | .nan => none

/-- the numbers of a list of cells (NaN cells dropped) -/
def numsOf (vs : List Val) : List Int := vs.filterMap Val.toInt?

/-- float division, exactly: `none` when the divisor is zero -/
def fdiv (a b : Rat) : Option Rat := if b = 0 then none else some (a / b)

/-- one group of `GroupBy.var`: `(s2 − s² / n) / (n − ddof)`, null when the group has no more values than `ddof` -/
def varFrom (s2 s cnt : Val) (ddof : Nat) : Option Rat :=
  match s2, s, cnt with
  | .num a, .num b, .num n =>
    if n ≤ (ddof : Int) then none else
    match fdiv ((b : Rat) * (b : Rat)) (n : Rat) with
    | none => none
    | some q => fdiv ((a : Rat) - q) ((n : Rat) - (ddof : Rat))
  | _, _, _ => none

/-- `GroupBy.var(values, mask, ddof)` at the kernel level, for every group -/
def groupVar (R : Kind → String → Red) (k : Kind) (rows : List Row) (mask : Mask) (threads : Nat)
    (vch : Option (List Nat)) (ddof : Nat) : Option (Int → Option Rat) :=
  match groupKernel R .sumSquares k rows mask threads vch, groupKernel R .sum k rows mask threads vch,
      groupKernel R .count k rows mask threads vch with
  | some p2, some p1, some pc => some fun g => varFrom (p2 g).1 (p1 g).1 (pc g).1 ddof
  | _, _, _ => none

/-- one group of a ratio of two sums -/
def ratioFrom (a b : Val) : Option Rat :=
  match a, b with
  | .num x, .num y => fdiv (x : Rat) (y : Rat)
  | _, _ => none

/-- `GroupBy.ratio(values1, values2, mask)`: two columns over the same codes -/
def groupRatio (R : Kind → String → Red) (k : Kind) (codes : List Int) (v1 v2 : List Val) (mask : Mask)
    (threads : Nat) : Option (Int → Option Rat) :=
  match groupKernel R .sum k (codes.zip v1) mask threads none, groupKernel R .sum k (codes.zip v2) mask threads none with
  | some p1, some p2 => some fun g => ratioFrom (p1 g).1 (p2 g).1
  | _, _ => none

/-- `GroupBy.subset_ratio(values, subset_mask, global_mask)` with boolean masks.  Both sums are
ordinary `agg` results restricted to the *observed* labels (labels with at least one selected row);
dividing the two pandas objects aligns them on the labels, so a label without any row in the subset
gets a null, not `0 / total`. -/
def groupSubsetRatio (R : Kind → String → Red) (k : Kind) (rows : List Row) (subset : List Bool)
    (global : Option (List Bool)) (threads : Nat) : Option (Int → Option Rat) :=
  let numMask := match global with
    | none => subset
    | some gm => List.zipWith (· && ·) subset gm
  let denMask := match global with
    | none => Mask.none
    | some gm => Mask.bool gm
  match groupKernel R .sum k rows (.bool numMask) threads none, groupKernel R .size k rows (.bool numMask) threads none,
      groupKernel R .sum k rows denMask threads none with
  | some p1, some pn, some p2 => some fun g => if (pn g).2 = 0 then none else ratioFrom (p1 g).1 (p2 g).1
  | _, _, _ => none

/-- `GroupBy.density(values, mask)` for a single key: share of the total, in percent -/
def groupDensity (R : Kind → String → Red) (k : Kind) (rows : List Row) (mask : Mask) (ngroups : Nat)
    (threads : Nat) : Option (Int → Option Rat) :=
  match groupKernel R .sum k rows mask threads none with
  | some p =>
    let total : Int := (((List.range ngroups).map fun j => (p (Int.ofNat j)).1).filterMap Val.toInt?).foldr (· + ·) 0
    some fun g => match (p g).1 with
      | .num s => fdiv (100 * (s : Rat)) (total : Rat)
      | .nan => none
  | none => none

end GV
