import GroupbyVerif.Model.Imp

/-!
# `group_nearby_members`: sub-groups of rows of one group that follow each other closely

The kernel walks the rows once.  Per group it remembers whether a row was seen, the value of the group's last row and
the sub-group number handed to it; one global counter hands out new sub-group numbers.  A row with a null (negative)
key is skipped before anything is read or written and keeps the output `-1`.
-/

namespace GV

structure NearbySt where
  seen : Int → Bool
  counter : Int
  tracker : Int → Int
  last : Int → Val

def nearbyInit : NearbySt := ⟨fun _ => false, -1, fun _ => -1, fun _ => .num 0⟩

/-- does row `r` open a new sub-group, given the state before it -/
def nearbyFresh (maxDiff : Val) (st : NearbySt) (r : Int × Val) : Bool :=
  if !(st.seen r.1) then true else Val.gt (Val.abs (Val.sub r.2 (st.last r.1))) maxDiff

/-- one row: new state and the row's output -/
def nearbyStep (maxDiff : Val) (st : NearbySt) (r : Int × Val) : NearbySt × Int :=
  if r.1 < 0 then (st, -1) else
    let fresh := nearbyFresh maxDiff st r
    let seen' := if !(st.seen r.1) then aset st.seen r.1 true else st.seen
    let counter' := if fresh then st.counter + 1 else st.counter
    let tracker' := if fresh then aset st.tracker r.1 (st.counter + 1) else st.tracker
    (⟨seen', counter', tracker', aset st.last r.1 r.2⟩, tracker' r.1)

/-- state after the rows and their outputs, in row order -/
def nearbyRun (maxDiff : Val) (rows : List (Int × Val)) : NearbySt × List Int :=
  rows.foldl (fun acc r => ((nearbyStep maxDiff acc.1 r).1, acc.2 ++ [(nearbyStep maxDiff acc.1 r).2])) (nearbyInit, [])

/-- `group_nearby_members(group_key, values, max_diff, n_groups)` -/
def nearby (maxDiff : Val) (rows : List (Int × Val)) : List Int := (nearbyRun maxDiff rows).2

end GV
