import GroupbyVerif.Model.Kernels
import GroupbyVerif.Generated.ScalarFuncs

/-! the reducer table built from the definitions *regenerated from the current source*;
this is what the driver executes -/

namespace GV

def generatedReducers (k : Kind) : String → Red
  | "sum" => Generated.ScalarFuncs.sum k
  | "nansum" => Generated.ScalarFuncs.nansum k
  | "nansum_squares" => Generated.ScalarFuncs.nansum_squares k
  | "max" => Generated.ScalarFuncs.max k
  | "nanmax" => Generated.ScalarFuncs.nanmax k
  | "min" => Generated.ScalarFuncs.min k
  | "nanmin" => Generated.ScalarFuncs.nanmin k
  | "nancount" => Generated.ScalarFuncs.nancount k
  | "count" => Generated.ScalarFuncs.count k
  | "first" => Generated.ScalarFuncs.first k
  | _ => Generated.ScalarFuncs.last k

end GV
