import GroupbyVerif.Model.Spec

/-!
# Cumulative kernels: `_cumulative_reduce` / `_apply_cumulative`

The loop keeps, per group, the count of accepted values and the position of the group's
previous accepted row, and reads the running value back from the output array at that
position.  Every position is written only in its own iteration, so that read returns the
value produced when the group last accepted a row; the model carries it as the group's
running partial.
-/

namespace GV

structure CRow where
  code : Int
  val : Val
  sel : Bool          -- selected by the mask (true when there is no mask)
deriving Repr, Inhabited

/-- outputs of the loop, row by row: `none` at null-key rows (filled with the null marker afterwards) -/
def cumGo (red : Red) : (Int → Partial) → List CRow → List (Option Val)
  | _, [] => []
  | st, r :: rs =>
    if r.code < 0 then none :: cumGo red st rs
    else if !r.sel then
      -- masked row: pass the current accumulator through (the target's initial value if none yet)
      some (st r.code).1 :: cumGo red st rs
    else
      let p := red (st r.code).1 r.val (st r.code).2
      some p.1 :: cumGo red (upd st r.code p) rs

def cumulativeReduce (red : Red) (init : Val) (rows : List CRow) : List (Option Val) :=
  cumGo red (fun _ => (init, 0)) rows

/-- the cumulative operations of `numba.cumsum/cumcount/cummin/cummax` -/
inductive CumOp where
  | sum | count | min | max
deriving DecidableEq, Repr, Inhabited

/-- reducer chosen by `_apply_cumulative` (`"nan" + operation if skip_na else operation`) -/
def CumOp.red (op : CumOp) (R : Kind → String → Red) (k : Kind) (skipna : Bool) : Red :=
  match op, skipna with
  | .sum, true => R k "nansum" | .sum, false => R k "sum"
  | .count, true => R k "nancount" | .count, false => R k "count"
  | .min, true => R k "nanmin" | .min, false => R k "min"
  | .max, true => R k "nanmax" | .max, false => R k "max"

/-- kernel whose per-group definition the cumulative operation accumulates -/
def CumOp.kernel : CumOp → Bool → Kernel
  | .sum, true => .sum | .sum, false => .sumNoSkip
  | .count, true => .count | .count, false => .size
  | .min, _ => .min
  | .max, _ => .max

/-- initial value of the output array (`_build_target_for_groupby(dtype, "sum" if counting else op)`) -/
def CumOp.init (op : CumOp) (k : Kind) : Val :=
  match op with
  | .sum | .count => .num 0
  | _ => nullValue k

/-- the selected values of group `g`, in row order -/
def selVals (rows : List CRow) (g : Int) : List Val :=
  (rows.filter (fun r => r.code = g ∧ r.sel = true)).map (·.val)

/-- **specification**: at every row with a non-null key, the per-group definition applied to the
selected values of the same group from its first row up to and including that row -/
def specCum (op : CumOp) (k : Kind) (rows : List CRow) : List (Option Val) :=
  (List.range rows.length).map fun i =>
    match rows[i]? with
    | none => none
    | some r => if r.code < 0 then none
                else some (specKernel (op.kernel true) k (selVals (rows.take (i + 1)) r.code)).1

end GV
