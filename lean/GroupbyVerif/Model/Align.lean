/-!
# Argument alignment (model of `core._validate_input_lengths_and_indexes` / `GroupBy._preprocess_arguments`)

The validators as Boolean functions of the argument lengths and index identities (an index is abstracted
to an identifier: two pandas indexes are `equals` iff their identifiers coincide).
-/

namespace GV.C18

/-- `len(set(map(len, arr_list))) > 1` raises: all lengths must coincide -/
def lengthsOk : List Nat → Bool
  | [] => true
  | l :: ls => ls.all (· == l)

/-- `for left, right in zip(indexes, indexes[1:]): if not left.equals(right): raise` -/
def chainOk : List Nat → Bool
  | [] => true
  | [_] => true
  | a :: b :: rest => a == b && chainOk (b :: rest)

/-- `_preprocess_arguments`: lengths of values (and boolean mask) mutually equal and equal to the number of
key rows; the pandas indexes among them mutually equal and equal to the keys' index when the keys have one -/
def accepts (nKeys : Nat) (keyIndex : Option Nat) (lens : List Nat) (idxs : List Nat) : Bool :=
  lengthsOk lens && chainOk idxs &&
  (match lens with | [] => true | l :: _ => l == nKeys) &&
  (match keyIndex, idxs with
   | some k, i :: _ => k == i
   | _, _ => true)

end GV.C18
