import GroupbyVerif.Model.Spec
import GroupbyVerif.Model.Factorize

/-!
# The public reduction pipeline: factorize -> kernel -> observed filter -> label order

`Key` is a tuple of key components (one per key column), components are abstract ordered
atoms (`Nat`); a row's key is null as soon as one component is null.
-/

namespace GV

abbrev Key := List Nat

/-- rows' keys from key columns: `none` if any component is null -/
def rowKeys (cols : List (List (Option Nat))) (n : Nat) : List (Option Key) :=
  (List.range n).map fun i => cols.mapM fun c => (c[i]?).join

/-- lexicographic order on key tuples -/
def keyLe : Key → Key → Bool
  | [], _ => true
  | _ :: _, [] => false
  | a :: as, b :: bs => if a < b then true else if b < a then false else keyLe as bs

def sortLabels (ls : List Key) : List Key := ls.mergeSort keyLe

/-- **specification of a reduction** (C01): the labels are exactly the keys of the selected rows
(each once; ascending when sorting is on, otherwise in the order of first appearance in the
input), and each label carries the per-group definition over the selected rows with that key -/
def specReduce (kn : Kernel) (k : Kind) (keys : List (Option Key)) (vals : List Val) (mask : Mask)
    (sort : Bool) : Option (List (Key × Partial)) :=
  match selectGen (keys.zip vals) mask with
  | none => none
  | some sel =>
    let selKeys := sel.filterMap (·.1)
    let labels := (dedup (keys.filterMap id)).filter (fun l => l ∈ selKeys)
    let labels := if sort then sortLabels labels else labels
    some (labels.map fun l => (l, specKernel kn k ((sel.filter (fun r => r.1 = some l)).map (·.2))))

/-- **model of `GroupBy._apply_gb_reduction`** for one value column:
factorize, run the kernel (`threads` blocks) and the key count under the same mask, keep the
labels whose value count is positive or — failing that — whose key count is positive, order
the labels through the argsort of the label list -/
def modelReduce (R : Kind → String → Red) (kn : Kernel) (k : Kind) (keys : List (Option Key))
    (vals : List Val) (mask : Mask) (sort : Bool) (threads : Nat) : Option (List (Key × Partial)) :=
  let (codes, labels) := factorizeFirst keys
  match groupKernel R kn k (codes.zip vals) mask threads none,
        groupKernel R .size (.i 64) (codes.zip (codes.map Val.num)) mask 1 none with
  | some p, some cnt =>
    let idx := List.range labels.length
    let observed := idx.filter fun g => decide ((p (Int.ofNat g)).2 > 0) || decide ((cnt (Int.ofNat g)).2 > 0)
    let order := if sort then observed.mergeSort (fun a b => keyLe (labels.getD a []) (labels.getD b [])) else observed
    some (order.map fun g => (labels.getD g [], p (Int.ofNat g)))
  | _, _ => none

end GV
