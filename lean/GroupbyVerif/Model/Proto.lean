import GroupbyVerif.Model.Spec
import GroupbyVerif.Model.GenTable
import GroupbyVerif.Model.GroupBy
import GroupbyVerif.Model.RowSel
import GroupbyVerif.Model.Cumulative
import GroupbyVerif.Model.Rolling
import GroupbyVerif.Model.Ema
import GroupbyVerif.Model.Nanops
import GroupbyVerif.Generated.Constants

/-!
# Line protocol: parsing and printing (import-free)

One case per line, space separated `key=value` tokens after the op name; arrays are comma
lists, `_` is null, `-` is absent.  Anything that does not parse yields `bad-op` — never a default.
-/

namespace GV.Proto
open GV

abbrev KV := List (String × String)

def parseKV (toks : List String) : KV :=
  toks.filterMap fun t =>
    match t.splitOn "=" with
    | [k, v] => some (k, v)
    | _ => none

def get (kv : KV) (k : String) : Option String := (kv.find? (·.1 == k)).map (·.2)

def parseInt (s : String) : Option Int := s.toInt?

def parseNat (s : String) : Option Nat := s.toNat?

def splitComma (s : String) : List String := if s.isEmpty then [] else s.splitOn ","

def parseIntList (s : String) : Option (List Int) := (splitComma s).mapM parseInt

/-- comma list where an item may be `v*k` (value repeated k times) -/
def parseIntListRle (s : String) : Option (List Int) := do
  let parts ← (splitComma s).mapM fun t =>
    match t.splitOn "*" with
    | [v] => (parseInt v).map fun x => [x]
    | [v, k] => do
      let x ← parseInt v
      let n ← parseNat k
      pure (List.replicate n x)
    | _ => none
  pure parts.flatten

def parseNatList (s : String) : Option (List Nat) := (splitComma s).mapM parseNat

def parseVal (s : String) : Option Val :=
  if s == "_" then some .nan else (parseInt s).map .num

def parseValList (s : String) : Option (List Val) := (splitComma s).mapM parseVal

def parseBoolList (s : String) : Option (List Bool) :=
  (splitComma s).mapM fun t => if t == "1" then some true else if t == "0" then some false else none

def parseKind (s : String) : Option Kind :=
  match s with
  | "f" => some .f
  | "b" => some .b
  | "i8" => some (.i 8) | "i16" => some (.i 16) | "i32" => some (.i 32) | "i64" => some (.i 64)
  | "u8" => some (.u 8) | "u16" => some (.u 16) | "u32" => some (.u 32) | "u64" => some (.u 64)
  | _ => none

def parseOptInt (s : String) : Option (Option Int) :=
  if s.isEmpty then some none else (parseInt s).map some

/-- `-` | `b:1,0,1` | `s:<start>:<stop>` | `p:0,3,3` -/
def parseMask (s : String) : Option Mask :=
  if s == "-" then some .none
  else match s.splitOn ":" with
    | ["b", m] => (parseBoolList m).map .bool
    | ["p", p] => (parseIntList p).map .pos
    | ["s", a, b] => do
      let a ← parseOptInt a
      let b ← parseOptInt b
      pure (.slice a b)
    | _ => none

def parseKernel (s : String) : Option Kernel :=
  match s with
  | "size" => some .size | "count" => some .count | "sum" => some .sum | "sum_noskip" => some .sumNoSkip
  | "sum_squares" => some .sumSquares | "min" => some .min | "max" => some .max
  | "first" => some .first | "last" => some .last
  | _ => none

def showPartial (p : Partial) : String := s!"{p.1.toStr}/{p.2}"

def showGroups (ng : Nat) (f : Int → Partial) : String :=
  ",".intercalate ((List.range ng).map fun g => showPartial (f (Int.ofNat g)))

def showVals (vs : List Val) : String := ",".intercalate (vs.map Val.toStr)

/-- `1,_,3;2,2,_` : key columns separated by `;`, `_` = null -/
def parseKeyCols (s : String) : Option (List (List (Option Nat))) :=
  (s.splitOn ";").mapM fun col => (splitComma col).mapM fun t =>
    if t == "_" then some none else (parseNat t).map some

def showKey (l : Key) : String := ".".intercalate (l.map toString)

def showLabelled (r : List (Key × Partial)) : String :=
  if r.isEmpty then "-" else "|".intercalate (r.map fun (l, p) => s!"{showKey l}:{showPartial p}")

def showOptVals (vs : List (Option Val)) : String :=
  ",".intercalate (vs.map fun | none => "K" | some v => v.toStr)

def parseCumOp (s : String) : Option CumOp :=
  match s with
  | "sum" => some .sum | "count" => some .count | "min" => some .min | "max" => some .max
  | _ => none

def showRCells (vs : List (Option RCell)) : String :=
  ",".intercalate (vs.map fun
    | none => "K"
    | some .null => "_"
    | some (.num n) => toString n
    | some (.ratio s c) => s!"{s}/{c}")

def parseRollOp (s : String) : Option RollOp :=
  match s with
  | "sum" => some .sum | "mean" => some .mean | "min" => some .min | "max" => some .max
  | "shift" => some .shift | "diff" => some .diff
  | _ => none

def parseRat (s : String) : Option Rat :=
  match s.splitOn "/" with
  | [a] => (parseInt a).map fun n => (n : Rat)
  | [a, b] => do
    let n ← parseInt a
    let d ← parseNat b
    if d == 0 then none else pure ((n : Rat) / (d : Rat))
  | _ => none

def showRat (q : Rat) : String := if q.den == 1 then toString q.num else s!"{q.num}/{q.den}"

def showEma (vs : List (Option (Option Rat))) : String :=
  ",".intercalate (vs.map fun | none => "K" | some none => "_" | some (some q) => showRat q)

def parseNanOp (s : String) : Option NanOp :=
  match s with
  | "sum" => some .sum | "min" => some .min | "max" => some .max | "count" => some .count
  | "sum_square" => some .sumSquare
  | _ => none

def generatedROps (k : Kind) : String → Val → Val → Val
  | "sum" => Generated.ReductionOps.sum k | "min" => Generated.ReductionOps.min k
  | "max" => Generated.ReductionOps.max k | "count" => Generated.ReductionOps.count k
  | "sum_square" => Generated.ReductionOps.sum_square k | "first" => Generated.ReductionOps.first k
  | "first_skipna" => Generated.ReductionOps.first_skipna k | "last" => Generated.ReductionOps.last k
  | _ => Generated.ReductionOps.last_skipna k

def showInts (vs : List Int) : String := ",".intercalate (vs.map toString)

end GV.Proto
