import GroupbyVerif.Model.Kernels

/-!
# Abstract specifications: what the properties say, written directly over lists of rows
-/

namespace GV

/-- the values carried by the rows of group `g`, in row order -/
def valsOf (rows : List Row) (g : Int) : List Val :=
  (rows.filter (fun r => r.1 = g)).map (·.2)

/-- the non-null values, in order -/
def nonNull (k : Kind) (vs : List Val) : List Val := vs.filter (fun v => !isNull k v)

/-- fold `comb` over a list seeded by (`pre` of) its first element; `init` for the empty list -/
def accOf (comb : Val → Val → Val) (pre : Val → Val) (init : Val) : List Val → Val
  | [] => init
  | x :: xs => xs.foldl comb (pre x)

/-- textbook reductions of a list of non-null values -/
def sumVals (vs : List Val) : Val := vs.foldl Val.add (.num 0)
def sumSqVals (vs : List Val) : Val := vs.foldl vaddSq (.num 0)

/-- per-group definition of each kernel on one group's values: (result, count) -/
def specKernel (kn : Kernel) (k : Kind) (vs : List Val) : Partial :=
  let nn := nonNull k vs
  match kn with
  | .size => (.num vs.length, vs.length)
  | .count => (.num nn.length, nn.length)
  | .sum => (sumVals nn, nn.length)
  | .sumNoSkip => (sumVals vs, vs.length)
  | .sumSquares => (sumSqVals nn, nn.length)
  | .max => (accOf vmaxC id (nullValue k) nn, nn.length)
  | .min => (accOf vminC id (nullValue k) nn, nn.length)
  | .first => (nn.head?.getD (nullValue k), nn.length)
  | .last => (nn.getLast?.getD (nullValue k), vs.length)

/-- what `group_<kernel>` must return for group `g`: the definition applied to the selected rows -/
def specGroupKernel (kn : Kernel) (k : Kind) (rows : List Row) (mask : Mask) : Option (Int → Partial) :=
  (selectRows rows mask).map fun sel g => specKernel kn k (valsOf sel g)

end GV
