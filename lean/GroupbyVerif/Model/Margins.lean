import GroupbyVerif.Model.Factorize

/-!
# Margins: `core.add_row_margin` (import-free, executable)

The function receives the per-group results of a reduction, indexed by label tuples (one
position per key level), and adds `'All'` rows.  It is recursive in the number of levels:

* one level: append one row `'All'` holding `data.agg(agg_func)`;
* several levels: for each requested level `ℓ`, aggregate the per-group results over the *other*
  levels (`data.groupby(level=other_levels).agg(agg_func)`), add **all** margins to that smaller
  table recursively, put `'All'` at position `ℓ` of every label, and paste the rows into the
  output; finally rows with `'All'` at a level that was not requested are dropped.

A label tuple with margins is a *pattern*: `none` stands for `'All'`.  The aggregation is an
arbitrary binary operation `op` with unit `e` (sum / count / size: `+` on numbers; min / max with
null results skipped: an `Option`-valued extremum with `none` as unit; mean: margins of the sums and
of the counts, divided afterwards).  The order of the output rows is not modelled (C11).
-/

namespace GV

section Margins

variable {κ M : Type} [DecidableEq κ]

abbrev Pat (κ : Type) := List (Option κ)

/-- `Series.agg(agg_func)` -/
def aggM (op : M → M → M) (e : M) (xs : List M) : M := xs.foldr op e

/-- does a label tuple fall under a pattern?  (`none` = `'All'` matches every label) -/
def matchesPat : Pat κ → List κ → Bool
  | [], [] => true
  | none :: ps, _ :: ls => matchesPat ps ls
  | some a :: ps, b :: ls => decide (a = b) && matchesPat ps ls
  | _, _ => false

/-- the aggregate of the rows a pattern summarises — what a margin row *should* hold -/
def directAgg (op : M → M → M) (e : M) (data : List (List κ × M)) (p : Pat κ) : M :=
  aggM op e ((data.filter fun r => matchesPat p r.1).map (·.2))

/-- `data.groupby(level=other_levels, observed=True).agg(agg_func)` -/
def groupByOther (op : M → M → M) (e : M) (level : Nat) (data : List (List κ × M)) : List (List κ × M) :=
  (dedup (data.map fun r => r.1.eraseIdx level)).map fun l =>
    (l, aggM op e ((data.filter fun r => r.1.eraseIdx level = l).map (·.2)))

/-- the ordinary rows, as patterns without `'All'` -/
def plainRows (data : List (List κ × M)) : List (Pat κ × M) := data.map fun r => (r.1.map some, r.2)

/-- `add_row_margin(data, agg_func, levels)` for a table with `n` index levels -/
def addRowMargin (op : M → M → M) (e : M) : Nat → Option (List Nat) → List (List κ × M) → List (Pat κ × M)
  | 0, _, data => plainRows data
  | 1, _, data => plainRows data ++ [([none], aggM op e (data.map (·.2)))]
  | n + 2, levels, data =>
    let lv := levels.getD (List.range (n + 2))
    let summaries := lv.flatMap fun level =>
      (addRowMargin op e (n + 1) none (groupByOther op e level data)).map fun r =>
        (r.1.insertIdx level none, r.2)
    (plainRows data ++ summaries).filter fun r =>
      (List.range (n + 2)).all fun l => lv.contains l || r.1[l]? != some none

/-- `out.loc[summary.index] = summary`: a later row replaces an earlier one with the same label -/
def lastWins {α β : Type} [DecidableEq α] : List (α × β) → List (α × β)
  | [] => []
  | r :: rs => if rs.any (fun s => s.1 = r.1) then lastWins rs else r :: lastWins rs

/-- first value stored under a label (`Series.reindex` on labels) -/
def lookupP {α β : Type} [DecidableEq α] (a : α) : List (α × β) → Option β
  | [] => none
  | r :: rs => if r.1 = a then some r.2 else lookupP a rs

/-- margins of a **mean**: margins of the per-group sums and, separately, of the per-group counts
(`count_df = self._add_margins(count_df, func_name="sum")`), re-aligned on the labels and divided
afterwards — each output row carries (sum, count) -/
def meanMargins (n : Nat) (levels : Option (List Nat)) (data : List (List κ × (Int × Int))) :
    List (Pat κ × Int × Option Int) :=
  let S := addRowMargin (fun a b : Int => a + b) 0 n levels (data.map fun r => (r.1, r.2.1))
  let C := addRowMargin (fun a b : Int => a + b) 0 n levels (data.map fun r => (r.1, r.2.2))
  S.map fun r => (r.1, r.2, lookupP r.1 C)

end Margins

/-! ### the aggregations used by the reductions that accept `margins` -/

/-- null-skipping maximum / minimum of per-group results (`none` = a null result) -/
def omax : Option Int → Option Int → Option Int
  | none, b => b
  | a, none => a
  | some a, some b => some (if a < b then b else a)

def omin : Option Int → Option Int → Option Int
  | none, b => b
  | a, none => a
  | some a, some b => some (if b < a then b else a)

end GV
