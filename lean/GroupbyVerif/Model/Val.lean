/-!
# Values, dtype classes, null convention (import-free, executable)

One array cell of a numba kernel is either a float NaN or a number.  The model computes
with unbounded `Int` (floats are exercised on exactly representable integers only, see
DESIGN.md §3.1).  `Kind` keeps exactly the distinctions the code's behaviour depends on
(`util.is_null`, `util._null_value_for_numpy_type`, `numba._build_target_for_groupby`).
-/

namespace GV

inductive Val where
  | nan
  | num (n : Int)
deriving DecidableEq, Repr, Inhabited

/-- dtype class as seen by a kernel: float / signed int of width w (datetime and timedelta
arrive as `i 64` views) / unsigned of width w / bool -/
inductive Kind where
  | f
  | i (w : Nat)
  | u (w : Nat)
  | b
deriving DecidableEq, Repr, Inhabited

def minInt64 : Int := -9223372036854775808

/-- `util.is_null` (numba overload): NaN for floats, `== MIN_INT` (the int64 minimum) for every
integer type, `False` for booleans.  Unsigned and narrow signed types can never hold that
value, so they have no null. -/
def isNull : Kind → Val → Bool
  | .f, .nan => true
  | .i _, .num n => n == minInt64
  | _, _ => false

/-- well-formedness of a cell for its kind: only float arrays hold NaN, integers are in range -/
def WF : Kind → Val → Prop
  | .f, _ => True
  | .i w, .num n => -(2 ^ (w - 1) : Int) ≤ n ∧ n < 2 ^ (w - 1)
  | .u w, .num n => 0 ≤ n ∧ n < 2 ^ w
  | .b, .num n => n = 0 ∨ n = 1
  | _, .nan => False

/-- `util._null_value_for_numpy_type` -/
def nullValue : Kind → Val
  | .f => .nan
  | .i w => .num (-(2 ^ (w - 1)))
  | .u w => .num (2 ^ w - 1)
  | .b => .num 0

namespace Val

def isNan : Val → Bool
  | nan => true
  | _ => false

def add : Val → Val → Val
  | num a, num b => num (a + b)
  | _, _ => nan

def sub : Val → Val → Val
  | num a, num b => num (a - b)
  | _, _ => nan

def sq : Val → Val
  | num a => num (a * a)
  | nan => nan

/-- every comparison with NaN is false (IEEE) -/
def gt : Val → Val → Bool
  | num a, num b => decide (a > b)
  | _, _ => false

def lt : Val → Val → Bool
  | num a, num b => decide (a < b)
  | _, _ => false

def ge : Val → Val → Bool
  | num a, num b => decide (a ≥ b)
  | _, _ => false

def le : Val → Val → Bool
  | num a, num b => decide (a ≤ b)
  | _, _ => false

def ofInt (n : Int) : Val := num n

def toStr : Val → String
  | nan => "_"
  | num n => toString n

end Val

/-- numpy index normalisation for an array of length `n`: negative indices wrap once -/
def normIdx (n : Nat) (k : Int) : Int := if k < 0 then k + n else k

end GV
