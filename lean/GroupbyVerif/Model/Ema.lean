import GroupbyVerif.Model.Kernels

/-!
# Exponential moving averages: `_ema_grouped`, `_ema_grouped_timed`, `_ema_adjusted`, `_ema_time_weighted`

Exact rational arithmetic.  A row's observation is `none` when it is invalid (null value or
masked); invalid rows repeat the previous output.  The time-weighted variants are stated over
an abstract multiplicative decay `decay : Int → Rat` (`decay Δ = 2^(-Δ/halflife)`).
-/

namespace GV

/-- generic per-group loop with per-row outputs: rows with a negative code produce `none` -/
def loopGo {σ β ρ : Type} (step : σ → β → σ) (out : σ → β → ρ) : (Int → σ) → List (Int × β) → List (Option ρ)
  | _, [] => []
  | st, r :: rs =>
    if r.1 < 0 then none :: loopGo step out st rs
    else some (out (st r.1) r.2) :: loopGo step out (upd st r.1 (step (st r.1) r.2)) rs

/-- per-group EMA state: decayed numerator, decayed denominator, previous output, previous timestamp -/
structure ESt where
  r : Rat
  w : Rat
  last : Option Rat
  lastT : Option Int
deriving Repr, Inhabited

def eInit : ESt := ⟨0, 0, none, none⟩

/-- output of `_ema_grouped` at one row of the group (state before the row) -/
def emaOut (s : ESt) (x : Option Rat) : Option Rat :=
  match x with
  | none => s.last
  | some v => some ((v + s.r) / (1 + s.w))

/-- state update of `_ema_grouped`: accumulate a valid value, then decay once per group row -/
def emaStep (β : Rat) (s : ESt) (x : Option Rat) : ESt :=
  match x with
  | none => { s with r := s.r * β, w := s.w * β }
  | some v => { s with r := (s.r + v) * β, w := (s.w + 1) * β, last := some ((v + s.r) / (1 + s.w)) }

/-- `_ema_grouped(group_key, values, alpha, ngroups, mask)` -/
def emaGrouped (β : Rat) (rows : List (Int × Option Rat)) : List (Option (Option Rat)) :=
  loopGo (emaStep β) emaOut (fun _ => eInit) rows

/-- timed variant: decay by the time elapsed since the group's previous row *before* using the row -/
def decayed (decay : Int → Rat) (s : ESt) (t : Int) : ESt :=
  match s.lastT with
  | none => s
  | some t0 => { s with r := s.r * decay (t - t0), w := s.w * decay (t - t0) }

def emaOutTimed (decay : Int → Rat) (s : ESt) (tx : Int × Option Rat) : Option Rat :=
  emaOut (decayed decay s tx.1) tx.2

def emaStepTimed (decay : Int → Rat) (s : ESt) (tx : Int × Option Rat) : ESt :=
  let s' := decayed decay s tx.1
  match tx.2 with
  | none => { s' with lastT := some tx.1 }
  | some v => { s' with r := s'.r + v, w := s'.w + 1, last := some ((v + s'.r) / (1 + s'.w)), lastT := some tx.1 }

def emaGroupedTimed (decay : Int → Rat) (rows : List (Int × (Int × Option Rat))) : List (Option (Option Rat)) :=
  loopGo (emaStepTimed decay) (emaOutTimed decay) (fun _ => eInit) rows

/-! ### specification: the normalised exponentially weighted mean -/

/-- weighted sums over a group's history relative to its *last* row: weight `β^(rows elapsed)` -/
def emaS (β : Rat) : List (Option Rat) → Rat
  | [] => 0
  | x :: xs => (match x with | none => 0 | some v => v * β ^ xs.length) + emaS β xs

def emaW (β : Rat) : List (Option Rat) → Rat
  | [] => 0
  | x :: xs => (match x with | none => 0 | some _ => β ^ xs.length) + emaW β xs

/-- the output the property prescribes after the group history `hist` (last element = current row):
the weighted mean at a valid row, the previous output at an invalid one, null before the first valid row -/
def specEma (β : Rat) : List (Option Rat) → Option Rat
  | [] => none
  | hist@(_ :: _) =>
    -- drop trailing invalid rows: they repeat the output of the last valid row
    let rec go (h : List (Option Rat)) (fuel : Nat) : Option Rat :=
      match fuel with
      | 0 => none
      | fuel + 1 =>
        match h.getLast? with
        | none => none
        | some none => go h.dropLast fuel
        | some (some _) => some (emaS β h / emaW β h)
    go hist hist.length

/-- power of 1/2 for the executable dyadic decay -/
def halfPow (n : Nat) : Rat := (1 / 2 : Rat) ^ n

end GV
