/-!
# Effect tables (C19): who can write through which parameter

`tools/effects.py` abstractly interprets every function of the library and emits, per function, its local
in-place writes and its calls with the aliases bound to each callee parameter.  This file gives those tables a
meaning: `Reach tbl f w` — the write `w` (on a parameter / state root of `f`) can happen in `f` itself or in a
(transitive) callee, mapped back through the argument bindings — and a checker `closed` for a certificate
`W` (a per-function list of writes) that is proved to over-approximate `Reach`.
-/

namespace GV.Eff

/-- how an expression relates to a root: the object itself, a view of its buffer, an element, held in a fresh container (1 or 2 levels) -/
inductive AKind | o | v | e | h | hh
  deriving DecidableEq, Repr

/-- the root itself (`s`) or an element of it (`d`: the root is a container of arrays) -/
inductive Depth | s | d
  deriving DecidableEq, Repr

/-- buffer store or object mutation -/
inductive Mode | buf | obj
  deriving DecidableEq, Repr

structure Write where
  root : Nat
  depth : Depth
  mode : Mode
  deriving DecidableEq, Repr

structure Call where
  callee : Nat
  /-- callee parameter ↦ aliases (caller root, kind) of the argument -/
  binding : List (Nat × List (Nat × AKind))
  deriving Repr

structure Fn where
  /-- a public entry point of the library -/
  pub : Bool
  /-- the roots that are parameters of the function (caller-owned objects) -/
  params : List Nat
  /-- the roots that are object state (`self.<attr>`) -/
  localWrites : List Write
  calls : List Call
  deriving Repr

/-- a callee write `(depth, mode)` on a parameter bound to an alias `(root, k)`, seen from the caller
(`effects.py: push`) -/
def push (root : Nat) (k : AKind) (d : Depth) (m : Mode) : Option Write :=
  match k with
  | .hh => none
  | .h => match d with
    | .d => some ⟨root, .s, m⟩
    | .s => none
  | .e => match m with
    | .obj => none
    | .buf => some ⟨root, .d, m⟩
  | .v => match m with
    | .obj => none
    | .buf => some ⟨root, d, m⟩
  | .o => some ⟨root, d, m⟩

abbrev Table := List Fn

def Table.fn (t : Table) (f : Nat) : Fn := t.getD f ⟨false, [], [], []⟩

/-- the writes that can happen during a call of `f`, expressed on `f`'s own roots -/
inductive Reach (t : Table) : Nat → Write → Prop
  | loc {f w} : w ∈ (t.fn f).localWrites → Reach t f w
  | call {f c w' p al r k w} :
      c ∈ (t.fn f).calls → Reach t c.callee w' → (p, al) ∈ c.binding → p = w'.root → (r, k) ∈ al →
      push r k w'.depth w'.mode = some w → Reach t f w

abbrev Cert := List (List Write)

def Cert.at (W : Cert) (f : Nat) : List Write := W.getD f []

/-- one call site respects the certificate -/
def callClosed (W : Cert) (f : Nat) (c : Call) : Bool :=
  (W.at c.callee).all fun w' =>
    c.binding.all fun (p, al) =>
      if p = w'.root then
        al.all fun (r, k) =>
          match push r k w'.depth w'.mode with
          | some w => (W.at f).contains w
          | none => true
      else true

def fnClosed (t : Table) (W : Cert) (f : Nat) : Bool :=
  ((t.fn f).localWrites.all fun w => (W.at f).contains w) && ((t.fn f).calls.all fun c => callClosed W f c)

/-- the certificate contains the local writes and is closed under every call site -/
def closed (t : Table) (W : Cert) : Bool :=
  (List.range t.length).all fun f => fnClosed t W f

/-- what a public entry point may do: object-level mutation of its own state (caches); never a write through a
parameter, never a buffer store into state -/
def allowed (fn : Fn) (w : Write) : Bool :=
  !(fn.params.contains w.root) && !(w.mode == .buf)

def safe (t : Table) (W : Cert) : Bool :=
  (List.range t.length).all fun f => !(t.fn f).pub || (W.at f).all fun w => allowed (t.fn f) w

end GV.Eff
