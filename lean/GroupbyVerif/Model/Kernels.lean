import GroupbyVerif.Model.Arr
import GroupbyVerif.Model.Scalar

/-!
# Group reduction kernels: `_group_by_reduce`, the merge of partial results, `_group_func_wrap`

Per-group state is a total function `Int → σ` with point update (DESIGN.md §3.2).
-/

namespace GV

/-- one row seen by a kernel: (group code, value) -/
abbrev Row := Int × Val
/-- (accumulator, count) -/
abbrev Partial := Val × Int

def upd {σ : Type} (st : Int → σ) (k : Int) (x : σ) : Int → σ := fun j => if j = k then x else st j

/-- generic per-group fold: rows with a negative code are skipped (`if key < 0: continue`) -/
def gstep {σ α : Type} (f : σ → α → σ) (st : Int → σ) (r : Int × α) : Int → σ :=
  if r.1 < 0 then st else upd st r.1 (f (st r.1) r.2)

/-- the same step written so that compiled code evaluates the group's previous state only for the group that is
asked for (the compiler eta-expands `gstep` to four arguments: as written above every lookup would evaluate the
update *and* fall through to the older state - exponential in the number of rows) -/
def gstepFast {σ α : Type} (f : σ → α → σ) (st : Int → σ) (r : Int × α) : Int → σ :=
  fun j => if r.1 < 0 then st j else if j = r.1 then f (st r.1) r.2 else st j

/-- proved replacement used by the compiler for the driver executable (not an `implemented_by`: the kernel checks it) -/
@[csimp] theorem gstep_eq_gstepFast : @gstep = @gstepFast := by
  funext σ α f st r j
  unfold gstep gstepFast upd
  split <;> rfl

def groupFold {σ α : Type} (f : σ → α → σ) (init : Int → σ) (rows : List (Int × α)) : Int → σ :=
  rows.foldl (gstep f) init

/-- a reducer as a step on partials -/
def pstep (red : Red) (s : Partial) (v : Val) : Partial := red s.1 v s.2

/-- `_group_by_reduce` on the rows it visits (after mask/indexer resolution) -/
def groupByReduce (red : Red) (init : Val) (rows : List Row) : Int → Partial :=
  groupFold (pstep red) (fun _ => (init, 0)) rows

/-- single-group run of a reducer -/
def runRed (red : Red) (init : Val) (vs : List Val) : Partial := vs.foldl (pstep red) (init, 0)

/-- merge of two partials for one group (`reduce_array_pair` with both count arrays):
an empty right partial is skipped, otherwise the reducer sees the left accumulator,
the right accumulator and the *left count* -/
def mergePair (red : Red) (p q : Partial) : Partial :=
  if q.2 = 0 then p else ((red p.1 q.1 p.2).1, p.2 + q.2)

def mergeArr (red : Red) (p q : Int → Partial) : Int → Partial := fun g => mergePair red (p g) (q g)

/-- `combine_chunk_results_for_factorized_key`: left fold of the pairwise merge, starting with
the first block's partial -/
def combine (red : Red) : List (Int → Partial) → Option (Int → Partial)
  | [] => none
  | p :: ps => some (ps.foldl (mergeArr red) p)

/-- the merge as written in the pinned tree (be63ad5): the reducer was called with `count = 1`
and no information about the right partial's count.  Kept only for the regression witnesses
in `Props/C04.lean`. -/
def mergePairPinned (red : Red) (p q : Partial) : Partial := ((red p.1 q.1 1).1, p.2 + q.2)

/-- the group kernels of `groupby_lib.groupby.numba` -/
inductive Kernel where
  | size | count | sum | sumNoSkip | sumSquares | min | max | first | last
deriving DecidableEq, Repr, Inhabited

/-- reducer for the single pass -/
def Kernel.red (kn : Kernel) (R : Kind → String → Red) (k : Kind) : Red :=
  match kn with
  | .size => R k "count"
  | .count => R k "nancount"
  | .sum => R k "nansum"
  | .sumNoSkip => R k "sum"
  | .sumSquares => R k "nansum_squares"
  | .min => R k "nanmin"
  | .max => R k "nanmax"
  | .first => R k "first"
  | .last => R k "last"

/-- reducer named in the merge (`"sum" if counting or "sum" in name else name`) -/
def Kernel.mergeRed (kn : Kernel) (R : Kind → String → Red) (k : Kind) : Red :=
  match kn with
  | .size | .count | .sum | .sumNoSkip | .sumSquares => R k "sum"
  | .min => R k "nanmin"
  | .max => R k "nanmax"
  | .first => R k "first"
  | .last => R k "last"

/-- `_build_target_for_groupby` initial value -/
def Kernel.init (kn : Kernel) (k : Kind) : Val :=
  match kn with
  | .size | .count | .sum | .sumNoSkip | .sumSquares => .num 0
  | _ => nullValue k

/-- the hand-written reducer table -/
def modelReducers (k : Kind) : String → Red
  | "sum" => Scalar.sum k
  | "nansum" => Scalar.nansum k
  | "nansum_squares" => Scalar.nansum_squares k
  | "max" => Scalar.max k
  | "nanmax" => Scalar.nanmax k
  | "min" => Scalar.min k
  | "nanmin" => Scalar.nanmin k
  | "nancount" => Scalar.nancount k
  | "count" => Scalar.count k
  | "first" => Scalar.first k
  | _ => Scalar.last k

/-- elements selected by a mask the way array indexing would, in visiting order -/
def selectGen {α : Type} (rows : List α) : Mask → Option (List α)
  | .none => some rows
  | .bool m => if m.length = rows.length then some (selectBool rows m) else none
  | .slice a b => some (sliceSel rows a b)
  | .pos p => takePositions rows p

/-- rows selected by a mask, in the order the kernel visits them (single block) -/
def selectRows (rows : List Row) (m : Mask) : Option (List Row) := selectGen rows m

/-- intersect consecutive chunk lengths with the half-open range `[a, b)` -/
def sliceChunks (lens : List Nat) (a b : Nat) : List Nat :=
  let rec go (off : Nat) : List Nat → List Nat
    | [] => []
    | l :: ls =>
      let lo := max off a
      let hi := min (off + l) b
      (hi - lo) :: go (off + l) ls
  go 0 lens

/-- values arrive as an arrow ChunkedArray with more than one chunk -/
def isChunked (vch : Option (List Nat)) : Bool :=
  match vch with
  | some lens => decide (lens.length > 1)
  | none => false

/-- no mask: one block (single thread, contiguous values), the value chunks, or `n_threads` array_split parts -/
def blocksPlain (rows : List Row) (threads : Nat) (vch : Option (List Nat)) : Option (List (List Row)) :=
  if threads = 1 && !isChunked vch then some [rows]
  else if isChunked vch then
    (let lens := vch.getD []
     if lens.sum ≠ rows.length then none else some (splitBy rows lens))
  else if threads = 0 then none
  else some (arraySplit rows threads)

/-- boolean mask: filtered single block; with chunked values keys and mask are split at the chunk
lengths; with threads the *positions* of the true entries are split -/
def blocksBool (rows : List Row) (m : List Bool) (threads : Nat) (vch : Option (List Nat)) : Option (List (List Row)) :=
  if threads = 1 && !isChunked vch then
    (if m.length = rows.length then some [selectBool rows m] else none)
  else if isChunked vch then
    (let lens := vch.getD []
     if lens.sum ≠ rows.length then none
     else if m.length ≠ rows.length then none
     else some (((splitBy rows lens).zip (splitBy m lens)).map fun p => selectBool p.1 p.2))
  else if threads = 0 then none
  else (arraySplit ((nonzero m).map Int.ofNat) threads).mapM (takePositions rows)

/-- positional mask: chunked values are concatenated first; the positions are split across threads -/
def blocksPos (rows : List Row) (p : List Int) (threads : Nat) : Option (List (List Row)) :=
  if threads = 1 then (takePositions rows p).map fun b => [b]
  else if threads = 0 then none
  else (arraySplit p threads).mapM (takePositions rows)

/-- `_group_func_wrap` + `_chunk_groupby_args`: the blocks of rows handed to
`_apply_group_method_single_chunk`, in submission order.
`vchunks = some lens` when the values arrive as an arrow ChunkedArray with those chunk lengths.
A slice is applied first, to keys and values alike (views). -/
def blocksOf (rows : List Row) (mask : Mask) (threads : Nat) (vchunks : Option (List Nat)) :
    Option (List (List Row)) :=
  match mask with
  | .none => blocksPlain rows threads vchunks
  | .bool m => blocksBool rows m threads vchunks
  | .pos p => blocksPos rows p threads
  | .slice a b =>
    let lohi := sliceBounds rows.length a b
    blocksPlain (sliceSel rows a b) threads
      (vchunks.map fun lens => (sliceChunks lens lohi.1 lohi.2).filter (· ≠ 0))

/-- `group_<kernel>(group_key, values, ngroups, mask, n_threads, return_count=True)` -/
def groupKernel (R : Kind → String → Red) (kn : Kernel) (k : Kind) (rows : List Row) (mask : Mask)
    (threads : Nat) (vchunks : Option (List Nat)) : Option (Int → Partial) :=
  match blocksOf rows mask threads vchunks with
  | none => none
  | some blocks =>
    match blocks with
    | [b] => some (groupByReduce (kn.red R k) (kn.init k) b)
    | _ => combine (kn.mergeRed R k) (blocks.map (groupByReduce (kn.red R k) (kn.init k)))

end GV
