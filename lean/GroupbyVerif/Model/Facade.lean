/-!
# The pandas-style facade (`groupby/api.py`): resolution of `by` / `level` into keys and value columns

A frame is abstracted to its column labels and the names of its index levels; a `by` item is a label
(column or index level name), an array-like of the right length, or a callable applied to the index.
-/

namespace GV.Facade

structure Frame where
  columns : List String
  indexNames : List String
  deriving Repr

inductive ByItem where
  | label (name : String)
  | array (id : Nat)
  | callable (id : Nat)
  deriving Repr, DecidableEq

/-- where a key's data comes from -/
inductive KeySrc where
  | column (name : String)
  | level (i : Nat)
  | array (id : Nat)
  | mapped (id : Nat)
  deriving Repr, DecidableEq

/-- `DataFrameGroupBy._from_by_keys`, one `by` item: a label is a column if there is one, otherwise the index
level of that name, otherwise an error -/
def resolveItem (f : Frame) : ByItem → Option KeySrc
  | .array id => some (.array id)
  | .callable id => some (.mapped id)
  | .label nm =>
    if nm ∈ f.columns then some (.column nm)
    else if nm ∈ f.indexNames then some (.level (f.indexNames.idxOf nm))
    else none

def keyColumn : KeySrc → Option String
  | .column nm => some nm
  | _ => none

/-- all `by` items, in order; one unknown label fails the call -/
def resolveAll (f : Frame) : List ByItem → Option (List KeySrc)
  | [] => some []
  | b :: bs =>
    match resolveItem f b, resolveAll f bs with
    | some k, some ks => some (k :: ks)
    | _, _ => none

structure Resolved where
  keys : List KeySrc
  valueColumns : List String
  deriving Repr, DecidableEq

/-- keys from `by` (in order) followed by the requested index levels; every column that served as a key is
removed from the value columns, the others stay in frame order -/
def resolve (f : Frame) (by_ : List ByItem) (levels : List Nat) : Option Resolved :=
  match resolveAll f by_ with
  | none => none
  | some ks =>
    some { keys := ks ++ levels.map KeySrc.level,
           valueColumns := f.columns.filter (fun c => decide (c ∉ ks.filterMap keyColumn)) }

/-- the selection made with `[]` -/
inductive Selection where
  | all
  | one (name : String)
  | list (names : List String)
  deriving Repr

/-- the columns handed to the engine by every method (`_values_to_group`) -/
def selectedColumns (r : Resolved) : Selection → List String
  | .all => r.valueColumns
  | .one nm => [nm]
  | .list nms => nms

/-- iteration: for each label (code `g` in label order) the rows at the *positions* of that group -/
def iterGroups {α : Type} (codes : List Int) (ngroups : Nat) (rows : List α) : List (Nat × List α) :=
  (List.range ngroups).map fun g =>
    (g, (codes.zipIdx.filter (fun p => p.1 = Int.ofNat g)).filterMap (fun p => rows[p.2]?))

/-- what `.loc[positions]` would do instead: look the positions up as index *labels* -/
def locLookup {α : Type} (index : List Nat) (rows : List α) (positions : List Nat) : List α :=
  positions.flatMap fun p => (index.zipIdx.filter (fun q => q.1 = p)).filterMap (fun q => rows[q.2]?)

end GV.Facade
