import GroupbyVerif.Model.Proto

/-!
# gbdriver — executable model behind the line protocol

Each answer carries `model=` (the faithful model of the code path, executed with the reducers
regenerated from the current source) and `spec=` (the abstract specification).
-/

open GV GV.Proto

def opReduce (kv : KV) : Option String := do
  let kn ← parseKernel (← get kv "fn")
  let k ← parseKind (← get kv "kind")
  let ng ← parseNat (← get kv "ng")
  let codes ← parseIntList (← get kv "codes")
  let vals ← parseValList (← get kv "vals")
  let mask ← parseMask (← get kv "mask")
  let threads ← parseNat (← get kv "threads")
  let vch ← match ← get kv "vchunks" with
    | "-" => some none
    | s => (parseNatList s).map some
  if codes.length ≠ vals.length then none
  let rows := codes.zip vals
  let model := match groupKernel generatedReducers kn k rows mask threads vch with
    | some p => showGroups ng p
    | none => "error"
  let spec := match specGroupKernel kn k rows mask with
    | some p => showGroups ng p
    | none => "error"
  let nblocks := match blocksOf rows mask threads vch with
    | some bs => bs.length
    | none => 0
  pure s!"model={model} spec={spec} blocks={nblocks}"

def opGb (kv : KV) : Option String := do
  let kn ← parseKernel (← get kv "fn")
  let k ← parseKind (← get kv "kind")
  let cols ← parseKeyCols (← get kv "keys")
  let vals ← parseValList (← get kv "vals")
  let mask ← parseMask (← get kv "mask")
  let sort ← parseNat (← get kv "sort")
  let threads ← parseNat (← get kv "threads")
  let keys := rowKeys cols vals.length
  let model := match modelReduce generatedReducers kn k keys vals mask (sort != 0) threads with
    | some r => showLabelled r
    | none => "error"
  let spec := match specReduce kn k keys vals mask (sort != 0) with
    | some r => showLabelled r
    | none => "error"
  pure s!"model={model} spec={spec}"

def opFact (kv : KV) : Option String := do
  let cols ← parseKeyCols (← get kv "keys")
  let n ← parseNat (← get kv "n")
  let keys := rowKeys cols n
  let (codes, labels) := factorizeFirst keys
  let labs := if labels.isEmpty then "-" else "|".intercalate (labels.map showKey)
  pure s!"codes={showInts codes} labels={labs}"

/-- `_monotonic_factorization` on a list of numbers (`_` = float NaN: every comparison false) -/
def opMono (kv : KV) : Option String := do
  let xs ← parseValList (← get kv "xs")
  let (cut, codes, labels) := monotonicFactorization Val.lt Val.gt Val.isNan xs
  pure s!"cutoff={cut} codes={showInts ((codes.take cut).map Int.ofNat)} labels={showVals labels}"

def opScalar (kv : KV) : Option String := do
  let fn ← get kv "fn"
  let k ← parseKind (← get kv "kind")
  let cur ← parseVal (← get kv "cur")
  let next ← parseVal (← get kv "next")
  let count ← parseInt (← get kv "count")
  let r := generatedReducers k fn cur next count
  let m := modelReducers k fn cur next count
  pure s!"model={showPartial r} spec={showPartial m}"

def step (line : String) : String :=
  match (line.trimAscii.toString.splitOn " ").filter (· ≠ "") with
  | [] => "bad-op"
  | op :: rest =>
    let kv := parseKV rest
    let r := match op with
      | "reduce" => opReduce kv
      | "scalar" => opScalar kv
      | "gb" => opGb kv
      | "fact" => opFact kv
      | "mono" => opMono kv
      | _ => none
    r.getD "bad-op"

partial def loop (h : IO.FS.Stream) (out : IO.FS.Stream) : IO Unit := do
  let line ← h.getLine
  if line.isEmpty then return ()
  out.putStrLn (step line)
  out.flush
  loop h out

def main : IO Unit := do
  loop (← IO.getStdin) (← IO.getStdout)
