import GroupbyVerif.Model.Proto
import GroupbyVerif.Model.Align
import GroupbyVerif.Model.Facade
import GroupbyVerif.Model.Margins
import GroupbyVerif.Model.Composite
import GroupbyVerif.Model.Nearby

/-!
# gbdriver — executable model behind the line protocol

Each answer carries `model=` (the faithful model of the code path, executed with the reducers
regenerated from the current source) and `spec=` (the abstract specification).
-/

open GV GV.Proto

def opReduce (kv : KV) : Option String := do
  let kn ← parseKernel (← get kv "fn")
  let k ← parseKind (← get kv "kind")
  let ng ← parseNat (← get kv "ng")
  let codes ← parseIntList (← get kv "codes")
  let vals ← parseValList (← get kv "vals")
  let mask ← parseMask (← get kv "mask")
  let threads ← parseNat (← get kv "threads")
  let vch ← match ← get kv "vchunks" with
    | "-" => some none
    | s => (parseNatList s).map some
  if codes.length ≠ vals.length then none
  let rows := codes.zip vals
  let model := match groupKernel generatedReducers kn k rows mask threads vch with
    | some p => showGroups ng p
    | none => "error"
  let spec := match specGroupKernel kn k rows mask with
    | some p => showGroups ng p
    | none => "error"
  let nblocks := match blocksOf rows mask threads vch with
    | some bs => bs.length
    | none => 0
  pure s!"model={model} spec={spec} blocks={nblocks}"

def opGb (kv : KV) : Option String := do
  let kn ← parseKernel (← get kv "fn")
  let k ← parseKind (← get kv "kind")
  let cols ← parseKeyCols (← get kv "keys")
  let vals ← parseValList (← get kv "vals")
  let mask ← parseMask (← get kv "mask")
  let sort ← parseNat (← get kv "sort")
  let threads ← parseNat (← get kv "threads")
  let keys := rowKeys cols vals.length
  let model := match modelReduce generatedReducers kn k keys vals mask (sort != 0) threads with
    | some r => showLabelled r
    | none => "error"
  let spec := match specReduce kn k keys vals mask (sort != 0) with
    | some r => showLabelled r
    | none => "error"
  pure s!"model={model} spec={spec}"

def opFact (kv : KV) : Option String := do
  let cols ← parseKeyCols (← get kv "keys")
  let n ← parseNat (← get kv "n")
  let keys := rowKeys cols n
  let (codes, labels) := factorizeFirst keys
  let labs := if labels.isEmpty then "-" else "|".intercalate (labels.map showKey)
  pure s!"codes={showInts codes} labels={labs}"

/-- `_monotonic_factorization` on a list of numbers (`_` = float NaN: every comparison false) -/
def opMono (kv : KV) : Option String := do
  let xs ← parseValList (← get kv "xs")
  let (cut, codes, labels) := monotonicFactorization Val.lt Val.gt Val.isNan xs
  pure s!"cutoff={cut} codes={showInts ((codes.take cut).map Int.ofNat)} labels={showVals labels}"

/-- `group_nearby_members` on integer-valued rows -/
def opNearby (kv : KV) : Option String := do
  let codes ← parseIntList (← get kv "codes")
  let vals ← parseValList (← get kv "vals")
  let d ← parseVal (← get kv "maxdiff")
  pure s!"model={showInts (nearby d (codes.zip vals))}"

/-- single-group evaluation through the per-group fold (equal to the array-level kernel by `groupFold_spec`) -/
def groupPositions (codes : List Int) (forward : Bool) (g : Int) : List Nat :=
  ((scanRows codes forward).filter (fun r => r.1 = g)).map (·.2)

def opNth (kv : KV) : Option String := do
  let codes ← parseIntListRle (← get kv "codes")
  let ng ← parseNat (← get kv "ng")
  let n ← parseInt (← get kv "n")
  let w := Generated.Constants.seenWidthNth
  let fwd := decide (0 ≤ n)
  let n' := if 0 ≤ n then n else -n - 1
  let res := (List.range ng).map fun g =>
    (groupPositions codes fwd (Int.ofNat g)).foldl (nthStep w n') nthInit
  let model := if res.any (·.failed) then "assert" else showInts (res.map (·.out))
  let spec := showInts ((List.range ng).map fun g => specNth codes n (Int.ofNat g))
  pure s!"model={model} spec={spec} w={w}"

def opFirstLast (kv : KV) : Option String := do
  let codes ← parseIntListRle (← get kv "codes")
  let ng ← parseNat (← get kv "ng")
  let n ← parseNat (← get kv "n")
  let fwd ← parseNat (← get kv "fwd")
  let forward := fwd != 0
  let w := Generated.Constants.seenWidthFirstLast
  let rows := (List.range ng).map fun g =>
    let s := (groupPositions codes forward (Int.ofNat g)).foldl (flStep w n) (flInit n)
    if forward then s.slots else s.slots.reverse
  let specRows := (List.range ng).map fun g =>
    if forward then specHead codes n (Int.ofNat g) else specTail codes n (Int.ofNat g)
  let sh := fun (rs : List (List Int)) => if n == 0 then "-" else "|".intercalate (rs.map showInts)
  pure s!"model={sh rows} spec={sh specRows} w={w}"

def opCum (kv : KV) : Option String := do
  let op ← parseCumOp (← get kv "op")
  let k ← parseKind (← get kv "kind")
  let skipna ← parseNat (← get kv "skipna")
  let codes ← parseIntList (← get kv "codes")
  let vals ← parseValList (← get kv "vals")
  let mask ← parseMask (← get kv "mask")
  if codes.length ≠ vals.length then none
  let sel ← match mask with
    | .none => some (List.replicate codes.length true)
    | .bool m => if m.length = codes.length then some m else none
    | _ => none
  let rows := (codes.zip (vals.zip sel)).map fun (c, v, s) => (⟨c, v, s⟩ : CRow)
  let model := cumulativeReduce (op.red generatedReducers k (skipna != 0)) (op.init k) rows
  let spec := if skipna != 0 then showOptVals (specCum op k rows) else "na"
  pure s!"model={showOptVals model} spec={spec}"

def opRoll (kv : KV) : Option String := do
  let op ← parseRollOp (← get kv "op")
  let k ← parseKind (← get kv "kind")
  let w ← parseNat (← get kv "window")
  let minp ← parseNat (← get kv "minp")
  let codes ← parseIntList (← get kv "codes")
  let vals ← parseValList (← get kv "vals")
  let mask ← parseMask (← get kv "mask")
  if codes.length ≠ vals.length || w == 0 then none
  let sel ← match mask with
    | .none => some (List.replicate codes.length true)
    | .bool m => if m.length = codes.length then some m else none
    | _ => none
  let rows := (codes.zip (vals.zip sel)).map fun (c, v, s) => (⟨c, v, s⟩ : CRow)
  pure s!"model={showRCells (rolling k op w minp rows)} spec={showRCells (specRolling k op w minp rows)}"

def opEma (kv : KV) : Option String := do
  let beta ← parseRat (← get kv "beta")
  let codes ← parseIntList (← get kv "codes")
  let xs ← (splitComma (← get kv "vals")).mapM fun t => if t == "_" then some none else (parseRat t).map some
  if codes.length ≠ xs.length then none
  let rows := codes.zip xs
  let model := emaGrouped beta rows
  -- specification: per row, the closed form over the history of the row's own group
  let spec := (List.range rows.length).map fun i =>
    match rows[i]? with
    | none => none
    | some r => if r.1 < 0 then none else
        some (specEma beta (((rows.take (i + 1)).filter (fun q => q.1 = r.1)).map (·.2)))
  pure s!"model={showEma model} spec={showEma spec}"

def opNanop (kv : KV) : Option String := do
  let op ← parseNanOp (← get kv "fn")
  let k ← parseKind (← get kv "kind")
  let arr ← parseValList (← get kv "arr")
  let threads ← parseNat (← get kv "threads")
  let skipna ← parseNat (← get kv "skipna")
  let model := match reduce1d generatedROps op k arr (skipna != 0) threads with
    | some v => v.toStr
    | none => "undefined"
  let spec := if skipna != 0 then (if arr.isEmpty && (op == .min || op == .max) then "undefined" else (specNan op k arr).toStr) else "na"
  pure s!"model={model} spec={spec}"

/-- `align nkeys=<n> keyidx=<id|_> lens=<..> idxs=<..>`: does the validation accept the call? -/
def opAlign (kv : KV) : Option String := do
  let nKeys ← parseNat (← get kv "nkeys")
  let ki := (← get kv "keyidx")
  let keyIndex ← if ki == "_" then pure none else (parseNat ki).map some
  let lens ← (splitComma (← get kv "lens")).mapM parseNat
  let idxs ← (splitComma (← get kv "idxs")).mapM parseNat
  let r := GV.C18.accepts nKeys keyIndex lens idxs
  pure s!"model={if r then "accept" else "reject"} spec={if r then "accept" else "reject"}"

/-- `resolve cols=<labels> idx=<index level names> by=<l:label|a:id|c:id ...> levels=<numbers>`: keys and value columns of the facade -/
def opResolve (kv : KV) : Option String := do
  let cols := splitComma (← get kv "cols")
  let idx := splitComma (← get kv "idx")
  let byItems ← (splitComma (← get kv "by")).mapM fun t =>
    match t.splitOn ":" with
    | ["l", nm] => some (GV.Facade.ByItem.label nm)
    | ["a", n] => (parseNat n).map GV.Facade.ByItem.array
    | ["c", n] => (parseNat n).map GV.Facade.ByItem.callable
    | _ => none
  let levels ← (splitComma (← get kv "levels")).mapM parseNat
  let showKey : GV.Facade.KeySrc → String
    | .column nm => s!"col:{nm}"
    | .level i => s!"level:{i}"
    | .array i => s!"array:{i}"
    | .mapped i => s!"mapped:{i}"
  let out := match GV.Facade.resolve ⟨cols, idx⟩ byItems levels with
    | none => "error"
    | some r => s!"keys:{"|".intercalate (r.keys.map showKey)};values:{",".intercalate r.valueColumns}"
  pure s!"model={out} spec={out}"

/-- `margins fn=<sum|max|min|mean> n=<levels> levels=<_|l1,l2> data=<l.l:v;...>`: `add_row_margin` on a table of
per-group results (`v` = integer; `_` = null for max / min; `s/c` for mean).  `model=` is the recursive
algorithm, `spec=` the aggregate of the rows each output pattern summarises. -/
def opMargins (kv : KV) : Option String := do
  let fn ← get kv "fn"
  let n ← parseNat (← get kv "n")
  let lv ← get kv "levels"
  let levels ← if lv == "_" then pure none else ((splitComma lv).mapM parseNat).map some
  let items := ((← get kv "data").splitOn ";").filter (· ≠ "")
  let showPat : Pat Int → String := fun p => ".".intercalate (p.map fun | none => "A" | some k => toString k)
  let parseRow : String → Option (List Int × String) := fun t =>
    match t.splitOn ":" with
    | [l, v] => ((l.splitOn ".").mapM parseInt).map fun lab => (lab, v)
    | _ => none
  let rows ← items.mapM parseRow
  if rows.any (fun r => r.1.length ≠ n) then none
  let join : List String → String := fun xs => if xs.isEmpty then "-" else "|".intercalate xs
  match fn with
  | "sum" =>
    let data ← rows.mapM fun r => (parseInt r.2).map fun v => (r.1, v)
    let out := lastWins (addRowMargin (fun a b : Int => a + b) 0 n levels data)
    let model := join (out.map fun r => s!"{showPat r.1}:{r.2}")
    let spec := join (out.map fun r => s!"{showPat r.1}:{directAgg (fun a b : Int => a + b) 0 data r.1}")
    pure s!"model={model} spec={spec}"
  | "max" | "min" =>
    let op := if fn == "max" then omax else omin
    let data ← rows.mapM fun r => (if r.2 == "_" then some none else (parseInt r.2).map some).map fun v => (r.1, v)
    let sh : Option Int → String := fun | none => "_" | some v => toString v
    let out := lastWins (addRowMargin op none n levels data)
    let model := join (out.map fun r => s!"{showPat r.1}:{sh r.2}")
    let spec := join (out.map fun r => s!"{showPat r.1}:{sh (directAgg op none data r.1)}")
    pure s!"model={model} spec={spec}"
  | "mean" =>
    let data ← rows.mapM fun r =>
      match r.2.splitOn "/" with
      | [a, b] => do pure (r.1, (← parseInt a), (← parseInt b))
      | _ => none
    let out := lastWins (meanMargins n levels data)
    let sh : Option Int → String := fun | none => "_" | some v => toString v
    let model := join (out.map fun r => s!"{showPat r.1}:{r.2.1}/{sh r.2.2}")
    let spec := join (out.map fun r =>
      s!"{showPat r.1}:{directAgg (fun a b : Int => a + b) 0 (data.map fun d => (d.1, d.2.1)) r.1}/{directAgg (fun a b : Int => a + b) 0 (data.map fun d => (d.1, d.2.2)) r.1}")
    pure s!"model={model} spec={spec}"
  | _ => none

/-- `composite op=<var|ratio|subset_ratio|density> kind= codes= vals= [vals2=] [mask=] [subset= global=] threads= ng= [ddof=]`:
the composite statistics as combinations of kernel calls (reducers regenerated from the source) -/
def opComposite (kv : KV) : Option String := do
  let op ← get kv "op"
  let k ← parseKind (← get kv "kind")
  let codes ← parseIntList (← get kv "codes")
  let vals ← parseValList (← get kv "vals")
  let threads ← parseNat (← get kv "threads")
  let ng ← parseNat (← get kv "ng")
  if codes.length ≠ vals.length then none
  let rows := codes.zip vals
  let sh : Option (Int → Option Rat) → String := fun r => match r with
    | none => "error"
    | some f => if ng == 0 then "-" else ",".intercalate ((List.range ng).map fun g => match f (Int.ofNat g) with
        | none => "_"
        | some q => showRat q)
  match op with
  | "var" =>
    let mask ← parseMask (← get kv "mask")
    let ddof ← parseNat (← get kv "ddof")
    pure s!"model={sh (groupVar generatedReducers k rows mask threads none ddof)}"
  | "ratio" =>
    let mask ← parseMask (← get kv "mask")
    let vals2 ← parseValList (← get kv "vals2")
    if vals2.length ≠ codes.length then none
    pure s!"model={sh (groupRatio generatedReducers k codes vals vals2 mask threads)}"
  | "subset_ratio" =>
    let subset ← parseBoolList (← get kv "subset")
    let g ← get kv "global"
    let gm ← if g == "-" then pure none else (parseBoolList g).map some
    pure s!"model={sh (groupSubsetRatio generatedReducers k rows subset gm threads)}"
  | "density" =>
    let mask ← parseMask (← get kv "mask")
    pure s!"model={sh (groupDensity generatedReducers k rows mask ng threads)}"
  | _ => none

def opScalar (kv : KV) : Option String := do
  let fn ← get kv "fn"
  let k ← parseKind (← get kv "kind")
  let cur ← parseVal (← get kv "cur")
  let next ← parseVal (← get kv "next")
  let count ← parseInt (← get kv "count")
  let r := generatedReducers k fn cur next count
  let m := modelReducers k fn cur next count
  pure s!"model={showPartial r} spec={showPartial m}"

def step (line : String) : String :=
  match (line.trimAscii.toString.splitOn " ").filter (· ≠ "") with
  | [] => "bad-op"
  | op :: rest =>
    let kv := parseKV rest
    let r := match op with
      | "reduce" => opReduce kv
      | "scalar" => opScalar kv
      | "gb" => opGb kv
      | "fact" => opFact kv
      | "nth" => opNth kv
      | "cum" => opCum kv
      | "roll" => opRoll kv
      | "ema" => opEma kv
      | "nanop" => opNanop kv
      | "align" => opAlign kv
      | "resolve" => opResolve kv
      | "firstlast" => opFirstLast kv
      | "mono" => opMono kv
      | "margins" => opMargins kv
      | "composite" => opComposite kv
      | "nearby" => opNearby kv
      | _ => none
    r.getD "bad-op"

partial def loop (h : IO.FS.Stream) (out : IO.FS.Stream) : IO Unit := do
  let line ← h.getLine
  if line.isEmpty then return ()
  out.putStrLn (step line)
  out.flush
  loop h out

def main : IO Unit := do
  loop (← IO.getStdin) (← IO.getStdout)
